package avl

// Independent instances used from different goroutines must not influence each other (C01,
// C02): each goroutine drives its own tree through a fixed script; the fingerprints must equal
// those of the same scripts run sequentially, and there must be no data race. Node pools,
// package-level scratch buffers and the like show up here.

func cindepRun(seed, off int) []int {
	t := NewOrdered[int]()
	var out []int
	for i := 0; i < 9; i++ {
		t.Add((i*5+seed*3)%11 + off)
	}
	out = append(out, t.Len())
	t.Remove((seed*3)%11 + off)
	t.Remove(100 + off)
	c := t.Clone()
	c.Add(50 + off)
	out = append(out, t.SliceInOrder()...)
	out = append(out, t.SlicePreOrder()...)
	out = append(out, t.SlicePostOrder()...)
	out = append(out, c.Len(), t.Len())
	if t.Contains(5 + off) {
		out = append(out, 1)
	}
	t.WalkInOrder(func(v int) { out = append(out, v) })
	t.Clear()
	t.Add(1 + off)
	out = append(out, t.Len())
	return out
}

func VHIndepConc() {
	off := vInt("off")
	vAssume(vAnd(off >= -1000, off <= 1000))
	expA, expB := cindepRun(1, off), cindepRun(2, off)
	var gotA, gotB []int
	vGo(func() { gotA = cindepRun(1, off) })
	vGo(func() { gotB = cindepRun(2, off) })
	vAssert(vWait(), "independent trees: both goroutines finish")
	vAssert(len(gotA) == len(expA) && len(gotB) == len(expB), "independent trees used concurrently behave as they do sequentially (length)")
	for i := range expA {
		if i < len(gotA) {
			vAssert(gotA[i] == expA[i], "independent trees used concurrently behave as they do sequentially")
		}
	}
	for i := range expB {
		if i < len(gotB) {
			vAssert(gotB[i] == expB[i], "independent trees used concurrently behave as they do sequentially")
		}
	}
	vCover("indep conc done")
}
