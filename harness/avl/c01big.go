package avl

// C01 / C02 at scale, black-box: trees of N values (hundreds in the quick tier, tens of
// thousands in the thorough one) built through the exported API in four insertion patterns,
// so that heights beyond 8 and 16, long left and right spines during construction, and walks
// over deep trees are exercised; the full black-box check (c01bCheck: three traversals of one
// height-balanced tree within the AVL depth bound, ordered, complete) runs after the build,
// after a clone, after removing a third of the values and after a final Add of a symbolic
// value that may fall into any of 8 adjacent gaps around one of four pivots. The stored values
// are concrete (3*i): the solver decides the placement of the symbolic value only.

func c01bigOrder(n, pat int) []int {
	order := make([]int, 0, n)
	switch pat {
	case 0: // ascending
		for i := 0; i < n; i++ {
			order = append(order, i)
		}
	case 1: // descending
		for i := n - 1; i >= 0; i-- {
			order = append(order, i)
		}
	case 2: // outside-in
		for lo, hi := 0, n-1; lo <= hi; lo, hi = lo+1, hi-1 {
			order = append(order, lo)
			if hi != lo {
				order = append(order, hi)
			}
		}
	default: // a fixed pseudo-random permutation (Fisher-Yates driven by an LCG)
		for i := 0; i < n; i++ {
			order = append(order, i)
		}
		x := uint32(12345)
		for i := n - 1; i > 0; i-- {
			x = x*1664525 + 1013904223
			j := int(x>>8) % (i + 1)
			order[i], order[j] = order[j], order[i]
		}
	}
	return order
}

func VHAvlBig() {
	n := vParam("NBIG")
	pat := vChoose("pattern", 4)
	t := NewOrdered[int]()
	for _, i := range c01bigOrder(n, pat) {
		t.Add(3 * i)
	}
	c01bCheck(&t, false, n, "big tree")
	in := t.SliceInOrder()
	for i := range in {
		vAssert(in[i] == 3*i, "big tree: the in-order slice lists exactly the values added")
	}
	var wpre, wpost []int
	t.WalkPreOrder(func(v int) { wpre = append(wpre, v) })
	t.WalkPostOrder(func(v int) { wpost = append(wpost, v) })
	pre, post := t.SlicePreOrder(), t.SlicePostOrder()
	vAssert(len(wpre) == len(pre) && len(wpost) == len(post), "big tree: the walks visit as many values as the slices hold")
	for i := range wpre {
		if i < len(pre) {
			vAssert(wpre[i] == pre[i], "big tree: WalkPreOrder agrees with SlicePreOrder")
		}
	}
	for i := range wpost {
		if i < len(post) {
			vAssert(wpost[i] == post[i], "big tree: WalkPostOrder agrees with SlicePostOrder")
		}
	}
	// clone: same contents, independent
	c := t.Clone()
	c01bCheck(&c, false, n, "clone of a big tree")
	cin := c.SliceInOrder()
	for i := range cin {
		if i < len(in) {
			vAssert(cin[i] == in[i], "clone of a big tree: same contents")
		}
	}
	c.Add(-1)
	vAssert(c.Len() == n+1 && t.Len() == n && !t.Contains(-1), "clone of a big tree: independent of the original")
	// remove every third value, in the insertion pattern's order
	removed := 0
	for _, i := range c01bigOrder(n, pat) {
		if i%3 == 1 {
			vAssert(t.Remove(3*i), "big tree: a stored value can be removed")
			removed++
		}
	}
	c01bCheck(&t, false, n-removed, "big tree after removals")
	vAssert(!t.Remove(1) && t.Len() == n-removed, "big tree: removing an absent value changes nothing")
	// a symbolic value into any of 8 adjacent gaps around a pivot
	if n > 5000 {
		vCover("avl big done")
		return // (every path rebuilds the tree: the symbolic probe is for the smaller sizes)
	}
	piv := n / 2
	if pat == 3 {
		piv = []int{0, n / 3, n / 2, n - 9}[vChoose("pivot", 4)]
	}
	if piv < 0 {
		piv = 0
	}
	v := vInt("v")
	vAssume(vAnd(v > 3*piv-3, v < 3*(piv+8)))
	was := t.Contains(v)
	vAssert(was == (v >= 0 && v%3 == 0 && (v/3)%3 != 1 && v/3 < n), "big tree: Contains is true exactly for the values present")
	t.Add(v)
	vAssert(t.Contains(v) && t.Len() == n-removed+1, "big tree: an added value is present")
	if !was {
		c01bCheck(&t, false, n-removed+1, "big tree after a further Add")
	}
	vCover("avl big done")
}
