package avl

// C01 / C02 at scale, black-box: trees of N values (hundreds in the quick tier, tens of
// thousands in the thorough one) built through the exported API in four insertion patterns,
// so that heights beyond 8 and 16, long left and right spines during construction, and walks
// over deep trees are exercised; the full black-box check (c01bCheck: three traversals of one
// height-balanced tree within the AVL depth bound, ordered, complete) runs after the build,
// after a clone, after removing a third of the values and after a final Add of a symbolic
// value that may fall into any of 8 adjacent gaps around one of four pivots. The stored values
// are concrete (3*i): the solver decides the placement of the symbolic value only.

func c01bigOrder(n, pat int) []int {
	order := make([]int, 0, n)
	switch pat {
	case 0: // ascending
		for i := 0; i < n; i++ {
			order = append(order, i)
		}
	case 1: // descending
		for i := n - 1; i >= 0; i-- {
			order = append(order, i)
		}
	case 2: // outside-in
		for lo, hi := 0, n-1; lo <= hi; lo, hi = lo+1, hi-1 {
			order = append(order, lo)
			if hi != lo {
				order = append(order, hi)
			}
		}
	default: // a fixed pseudo-random permutation (Fisher-Yates driven by an LCG)
		for i := 0; i < n; i++ {
			order = append(order, i)
		}
		x := uint32(12345)
		for i := n - 1; i > 0; i-- {
			x = x*1664525 + 1013904223
			j := int(x>>8) % (i + 1)
			order[i], order[j] = order[j], order[i]
		}
	}
	return order
}

func VHAvlBig() {
	n := vParam("NBIG")
	pat := vChoose("pattern", 4)
	t := NewOrdered[int]()
	for _, i := range c01bigOrder(n, pat) {
		t.Add(3 * i)
	}
	c01bCheck(&t, false, n, "big tree")
	in := t.SliceInOrder()
	for i := range in {
		vAssert(in[i] == 3*i, "big tree: the in-order slice lists exactly the values added")
	}
	var wpre, wpost []int
	t.WalkPreOrder(func(v int) { wpre = append(wpre, v) })
	t.WalkPostOrder(func(v int) { wpost = append(wpost, v) })
	pre, post := t.SlicePreOrder(), t.SlicePostOrder()
	vAssert(len(wpre) == len(pre) && len(wpost) == len(post), "big tree: the walks visit as many values as the slices hold")
	for i := range wpre {
		if i < len(pre) {
			vAssert(wpre[i] == pre[i], "big tree: WalkPreOrder agrees with SlicePreOrder")
		}
	}
	for i := range wpost {
		if i < len(post) {
			vAssert(wpost[i] == post[i], "big tree: WalkPostOrder agrees with SlicePostOrder")
		}
	}
	// clone: same contents, independent
	c := t.Clone()
	c01bCheck(&c, false, n, "clone of a big tree")
	cin := c.SliceInOrder()
	for i := range cin {
		if i < len(in) {
			vAssert(cin[i] == in[i], "clone of a big tree: same contents")
		}
	}
	c.Add(-1)
	vAssert(c.Len() == n+1 && t.Len() == n && !t.Contains(-1), "clone of a big tree: independent of the original")
	// remove every third value, in the insertion pattern's order
	removed := 0
	for _, i := range c01bigOrder(n, pat) {
		if i%3 == 1 {
			vAssert(t.Remove(3*i), "big tree: a stored value can be removed")
			removed++
		}
	}
	c01bCheck(&t, false, n-removed, "big tree after removals")
	vAssert(!t.Remove(1) && t.Len() == n-removed, "big tree: removing an absent value changes nothing")
	// a symbolic value into any of 8 adjacent gaps around a pivot
	if n > 5000 {
		vCover("avl big done")
		return // (every path rebuilds the tree: the symbolic probe is for the smaller sizes)
	}
	piv := n / 2
	if pat == 3 {
		piv = []int{0, n / 3, n / 2, n - 9}[vChoose("pivot", 4)]
	}
	if piv < 0 {
		piv = 0
	}
	v := vInt("v")
	vAssume(vAnd(v > 3*piv-3, v < 3*(piv+8)))
	was := t.Contains(v)
	vAssert(was == (v >= 0 && v%3 == 0 && (v/3)%3 != 1 && v/3 < n), "big tree: Contains is true exactly for the values present")
	t.Add(v)
	vAssert(t.Contains(v) && t.Len() == n-removed+1, "big tree: an added value is present")
	if !was {
		c01bCheck(&t, false, n-removed+1, "big tree after a further Add")
	}
	vCover("avl big done")
}

// VHAvlDupKeys: values that compare equal under the comparator (it looks at v>>4 only) but are
// pairwise distinct, so that the shape can still be reconstructed from the traversals: a
// perfect tree of 15, 31 or 63 keys receives up to three more values whose keys are already
// present - at the root, at an inner node, at a leaf, chosen per path - and then loses one of
// them (if it is found). After every call the tree revealed by the traversals must be balanced and within the
// depth bound, the in-order keys non-decreasing, and Len right. (Equal keys are where an
// insertion stops descending by comparison and a shortcut is tempting.)
func VHAvlDupKeys() {
	levels := 4 + vChoose("levels", 3)
	n := 1<<levels - 1
	key := func(v int) int { return v >> 4 }
	t := New(func(a, b int) int {
		switch {
		case key(a) < key(b):
			return -1
		case key(a) > key(b):
			return 1
		}
		return 0
	})
	// insert in breadth-first order of a perfect tree: no rotations needed
	for width := (n + 1) / 2; width >= 1; width /= 2 {
		for k := width; k <= n; k += 2 * width {
			t.Add(16 * k)
		}
	}
	size := n
	check := func(what string) {
		pre, in := t.SlicePreOrder(), t.SliceInOrder()
		vAssert(len(pre) == size && len(in) == size && t.Len() == size, what+": every traversal lists every value")
		for i := 1; i < len(in); i++ {
			vAssert(key(in[i-1]) <= key(in[i]), what+": the in-order slice is ordered under the comparator")
		}
		var post []int
		sh := c01bRebuild(pre, in, &post)
		vAssert(sh.ok, what+": pre-order and in-order slices are traversals of one tree")
		vAssert(sh.balanced, what+": the tree revealed by the traversals is height-balanced")
		vAssert(sh.height <= c01bMaxHeight(size), what+": no value lies deeper than the AVL bound allows")
	}
	check("equal keys: the perfect tree")
	root := (n + 1) / 2
	spots := []int{root, root / 2, root + root/2, 1, n, root - 1, root + 1}
	var added []int
	for j := 1; j <= 3; j++ {
		k := spots[vChoose("spot", len(spots))]
		v := 16*k + j
		t.Add(v)
		added = append(added, v)
		size++
		check("equal keys: after adding a value whose key is present")
	}
	r := added[vChoose("remove", len(added))]
	// (whether Remove finds a value among others of the same key is not asked here: C01 states
	// membership for comparators consistent with == only; the shape must be right either way)
	if t.Remove(r) {
		size--
	}
	check("equal keys: after a removal")
	vCover("avl dup keys done")
}
