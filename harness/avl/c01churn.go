package avl

// C01 / C02 over long histories on small trees: NOPS (400, thorough 4000) operations driven by
// a fixed pseudo-random sequence keep a tree between 0 and 12 distinct values - Add of an absent
// value, Remove of a present one (leaves, inner nodes and the root alike), now and then a Clone
// that replaces the tree, a Clear, or a Remove of an absent value - so that anything counted
// over the life of a tree (node pools, free lists, chunked allocation, deferred clean-ups) is
// carried far past its thresholds. The full black-box check runs after every operation. One
// symbolic value is added at the end.
func VHAvlChurnLong() {
	nops := vParam("NOPS")
	t := NewOrdered[int]()
	present := map[int]bool{}
	size := 0
	x := uint32(2463534242 + 17*uint32(vChoose("seq", 3)))
	next := func(n int) int {
		x ^= x << 13
		x ^= x >> 17
		x ^= x << 5
		return int(x>>3) % n
	}
	for op := 0; op < nops; op++ {
		v := 10 * next(16)
		r := next(40)
		switch {
		case r == 0:
			t = t.Clone()
		case r == 1 && op%97 == 5:
			t.Clear()
			present = map[int]bool{}
			size = 0
		case present[v] && (size > 8 || r%2 == 0):
			vAssert(t.Remove(v), "long history: Remove of a present value succeeds")
			present[v] = false
			size--
		case !present[v] && size < 12:
			t.Add(v)
			present[v] = true
			size++
		default:
			vAssert(t.Remove(v) == present[v], "long history: Remove reports whether the value was present")
			if present[v] {
				present[v] = false
				size--
			}
		}
		c01bCheck(&t, false, size, "long history")
		if op%16 == 0 {
			for u := 0; u < 160; u += 10 {
				vAssert(t.Contains(u) == present[u], "long history: Contains is true exactly for the values present")
			}
		}
	}
	// the deterministic shape of the same thing: 64 ascending Adds, 16 removals of the root, 16 Adds
	s := NewOrdered[int]()
	for i := 0; i < 64; i++ {
		s.Add(10 * i)
	}
	n := 64
	for i := 0; i < 16; i++ {
		root := s.SlicePreOrder()[0]
		vAssert(s.Remove(root), "long history: the root can be removed")
		n--
	}
	c01bCheck(&s, false, n, "long history: after removing the root 16 times")
	for i := 0; i < 16; i++ {
		s.Add(10*i + 5)
		n++
		c01bCheck(&s, false, n, "long history: Adds after root removals")
	}
	v := vInt("v")
	vAssume(vAnd(v > -10, v < 170))
	for u := 0; u < 170; u += 10 {
		vAssume(v != u)
	}
	t.Add(v)
	c01bCheck(&t, false, size+1, "long history: a symbolic Add at the end")
	vCover("avl churn long done")
}
