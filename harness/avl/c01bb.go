package avl

// C01 / C02, black-box part: everything here looks at the tree through its exported API only.
// The balance property is stated on "the binary tree revealed by the pre-order and in-order
// traversals": with pairwise distinct values those two slices determine the shape, which is
// reconstructed here and checked for AVL balance, for the depth bound, and against the
// post-order slice (the three traversals must be traversals of one and the same tree). These
// entries keep deciding C01/C02 when the white-box harness (c01.go, which builds nodes directly)
// no longer fits the tree's representation.

type c01bShape struct {
	height   int // -1: empty, 0: leaf
	balanced bool
	ok       bool // the two slices are consistent traversals of one tree
}

// c01bRebuild reconstructs the shape from pre-order and in-order slices of pairwise distinct
// values and appends the post-order sequence of the reconstructed tree to post.
func c01bRebuild(pre, in []int, post *[]int) c01bShape {
	if len(pre) != len(in) {
		return c01bShape{ok: false}
	}
	if len(pre) == 0 {
		return c01bShape{height: -1, balanced: true, ok: true}
	}
	root := pre[0]
	k := -1
	for i, v := range in {
		if v == root {
			k = i
			break
		}
	}
	if k < 0 {
		return c01bShape{ok: false}
	}
	l := c01bRebuild(pre[1:1+k], in[:k], post)
	r := c01bRebuild(pre[1+k:], in[k+1:], post)
	*post = append(*post, root)
	h := l.height
	if r.height > h {
		h = r.height
	}
	d := l.height - r.height
	return c01bShape{height: h + 1, balanced: l.balanced && r.balanced && d >= -1 && d <= 1, ok: l.ok && r.ok}
}

// maximal height (in edges) of an AVL tree with n nodes
func c01bMaxHeight(n int) int {
	a, b, h := 1, 2, 0
	for b <= n {
		a, b = b, a+b+1
		h++
	}
	return h
}

// c01bCheck: shape, traversals, Len and order of a tree holding pairwise distinct values.
func c01bCheck(t *Tree[int], desc bool, size int, what string) {
	pre, in, post := t.SlicePreOrder(), t.SliceInOrder(), t.SlicePostOrder()
	vAssert(len(in) == size && len(pre) == size && len(post) == size, what+": every traversal lists every value")
	vAssert(t.Len() == size, what+": Len is the number of values")
	for i := 1; i < len(in); i++ {
		if desc {
			vAssert(in[i-1] > in[i], what+": the in-order slice is ordered under the comparator")
		} else {
			vAssert(in[i-1] < in[i], what+": the in-order slice is ordered under the comparator")
		}
	}
	var rpost []int
	sh := c01bRebuild(pre, in, &rpost)
	vAssert(sh.ok, what+": pre-order and in-order slices are traversals of one tree")
	if !sh.ok {
		return
	}
	vAssert(sh.balanced, what+": the tree revealed by the pre- and in-order traversals is height-balanced")
	vAssert(sh.height <= c01bMaxHeight(size) || size == 0, what+": no value lies deeper than the AVL bound allows")
	for i := range rpost {
		if i < len(post) {
			vAssert(post[i] == rpost[i], what+": the post-order slice is the post-order traversal of that same tree")
		}
	}
	var win []int
	t.WalkInOrder(func(v int) { win = append(win, v) })
	vAssert(len(win) == len(in), what+": WalkInOrder visits every value")
	for i := range win {
		if i < len(in) {
			vAssert(win[i] == in[i], what+": WalkInOrder agrees with SliceInOrder")
		}
	}
}

// VHAvlHistBB: K operations on pairwise distinct values through the public API (natural or
// reversed order), the black-box check after every step, then a clone that must be equal,
// independent and usable.
func VHAvlHistBB() {
	desc := vChoose("order", 2) == 1
	var t Tree[int]
	if desc {
		t = New(func(a, b int) int {
			switch {
			case a > b:
				return -1
			case a < b:
				return 1
			}
			return 0
		})
	} else {
		t = NewOrdered[int]()
	}
	var vals []int
	present := map[int]bool{}
	size := 0
	k := vParam("K")
	for step := 0; step < k; step++ {
		if len(vals) == 0 || step < vParam("WARM") || vChoose("op", 2) == 0 {
			v := vInt("v")
			for _, x := range vals {
				vAssume(v != x)
			}
			vals = append(vals, v)
			t.Add(v)
			present[len(vals)-1] = true
			size++
		} else {
			i := vChoose("which", len(vals))
			ok := t.Remove(vals[i])
			vAssert(ok == present[i], "history (public API): Remove reports true exactly when the value is present")
			if present[i] {
				present[i] = false
				size--
			}
		}
		c01bCheck(&t, desc, size, "history (public API)")
		for i, v := range vals {
			vAssert(t.Contains(v) == present[i], "history (public API): Contains is true exactly for the values present")
		}
	}
	c := t.Clone()
	c01bCheck(&c, desc, size, "clone (public API)")
	nv := vInt("cv")
	for _, x := range vals {
		vAssume(nv != x)
	}
	c.Add(nv)
	c01bCheck(&c, desc, size+1, "clone after Add (public API)")
	c01bCheck(&t, desc, size, "original after the clone changed (public API)")
	if size >= 3 {
		vCover("bb history ends with >= 3 values")
	}
}

// VHAvlSortedBB: NS values in a fixed relative order (increasing, decreasing, zig-zag) added one
// by one and removed again: the black-box check (balance and depth bound included) after every call.
func VHAvlSortedBB() {
	n := vParam("NS")
	pat := vChoose("pattern", 3)
	vals := make([]int, n)
	for i := range vals {
		vals[i] = vInt("s")
	}
	for i := 1; i < n; i++ {
		vAssume(vals[i-1] < vals[i])
	}
	order := make([]int, 0, n)
	switch pat {
	case 0:
		for i := 0; i < n; i++ {
			order = append(order, i)
		}
	case 1:
		for i := n - 1; i >= 0; i-- {
			order = append(order, i)
		}
	case 2:
		for lo, hi := 0, n-1; lo <= hi; lo, hi = lo+1, hi-1 {
			order = append(order, lo)
			if hi != lo {
				order = append(order, hi)
			}
		}
	}
	// a counting comparator: the balance is what makes Add, Remove and Contains O(log n), so each
	// call may invoke the comparator only a small multiple of the depth bound times
	calls := 0
	t := New(func(a, b int) int {
		calls++
		switch {
		case a < b:
			return -1
		case a > b:
			return 1
		}
		return 0
	})
	budget := func(size int) int { return 3*(c01bMaxHeight(size)+2) + 2 }
	for m, i := range order {
		calls = 0
		t.Add(vals[i])
		vAssert(calls <= budget(m+1), "sorted input (public API): Add invokes the comparator O(log n) times")
		c01bCheck(&t, false, m+1, "sorted input (public API), after Add")
		calls = 0
		vAssert(t.Contains(vals[i]), "sorted input (public API): an added value is found")
		vAssert(calls <= budget(m+1), "sorted input (public API): Contains invokes the comparator O(log n) times")
	}
	for m, i := range order {
		calls = 0
		vAssert(t.Remove(vals[i]), "sorted input (public API): every value can be removed again")
		vAssert(calls <= budget(n-m), "sorted input (public API): Remove invokes the comparator O(log n) times")
		c01bCheck(&t, false, n-m-1, "sorted input (public API), after Remove")
	}
	vCover("bb sorted inserts done")
}

// VHAvlString: String() lists the values in order (concrete values).
func VHAvlString() {
	t := NewOrdered[int]()
	for _, v := range []int{5, -2, 9, 5, 0, 12} {
		t.Add(v)
	}
	t.Remove(9)
	in := t.SliceInOrder()
	got := vParseInts(t.String())
	vAssert(len(got) == len(in), "String lists every value")
	for i := range got {
		if i < len(in) {
			vAssert(got[i] == in[i], "String lists the values in order")
		}
	}
	vCover("avl string done")
}

// VHAvlChurn: a tree of N values (built in sorted, reversed or zig-zag order), then R rounds of
// "remove any one value, add a new value into any gap", with the black-box check after every
// call. Values are strictly ordered symbols, so every comparison is decided by the path
// condition: one path per choice of positions. State that only exists after removals - recycled
// nodes, free lists, stale cached fields - is reached here at sizes the exhaustive histories
// do not get to.
func VHAvlChurn() {
	n := 2 + vChoose("n", vParam("N")-1)
	rounds := vParam("R")
	total := n + rounds
	// a strictly increasing pool with room for the values added later: slot 2i+1 is an initial
	// value, the even slots and the tail are gaps
	pool := make([]int, 2*total+1)
	for i := range pool {
		pool[i] = vInt("s")
		if i > 0 {
			vAssume(pool[i-1] < pool[i])
		}
	}
	used := make([]bool, len(pool))
	order := make([]int, 0, n)
	switch vChoose("pattern", 3) {
	case 0:
		for i := 0; i < n; i++ {
			order = append(order, i)
		}
	case 1:
		for i := n - 1; i >= 0; i-- {
			order = append(order, i)
		}
	case 2:
		for lo, hi := 0, n-1; lo <= hi; lo, hi = lo+1, hi-1 {
			order = append(order, lo)
			if hi != lo {
				order = append(order, hi)
			}
		}
	}
	t := NewOrdered[int]()
	size := 0
	for _, i := range order {
		t.Add(pool[2*i+1])
		used[2*i+1] = true
		size++
	}
	c01bCheck(&t, false, size, "churn: after building")
	for r := 0; r < rounds; r++ {
		// remove the k-th present value
		k := vChoose("remove", size)
		for i := range pool {
			if used[i] {
				if k == 0 {
					vAssert(t.Remove(pool[i]), "churn: Remove finds a present value")
					used[i] = false
					size--
					break
				}
				k--
			}
		}
		c01bCheck(&t, false, size, "churn: after Remove")
		// add the g-th unused pool value
		free := 0
		for i := range pool {
			if !used[i] {
				free++
			}
		}
		g := vChoose("add", free)
		for i := range pool {
			if !used[i] {
				if g == 0 {
					t.Add(pool[i])
					used[i] = true
					size++
					break
				}
				g--
			}
		}
		c01bCheck(&t, false, size, "churn: after Add")
	}
	for i := range pool {
		vAssert(t.Contains(pool[i]) == used[i], "churn: Contains is true exactly for the values present")
	}
	if n >= 4 && rounds >= 2 {
		vCover("churn: >= 4 values, >= 2 rounds")
	}
}

// VHAvlCost: what the balance is for. On a tree of 64 values (sorted, reversed or zig-zag
// insertion order) every Add, Contains and Remove may invoke the comparator at most twice the
// depth bound (plus slack) times; an implementation that searches or rebalances in time
// proportional to the size fails this by a wide margin. Only the exported API is used.
func VHAvlCost() {
	n := vParam("NCOST")
	pat := vChoose("pattern", 3)
	vals := make([]int, n)
	for i := range vals {
		vals[i] = vInt("s")
		if i > 0 {
			vAssume(vals[i-1] < vals[i])
		}
	}
	order := make([]int, 0, n)
	switch pat {
	case 0:
		for i := 0; i < n; i++ {
			order = append(order, i)
		}
	case 1:
		for i := n - 1; i >= 0; i-- {
			order = append(order, i)
		}
	case 2:
		for lo, hi := 0, n-1; lo <= hi; lo, hi = lo+1, hi-1 {
			order = append(order, lo)
			if hi != lo {
				order = append(order, hi)
			}
		}
	}
	calls := 0
	t := New(func(a, b int) int {
		calls++
		switch {
		case a < b:
			return -1
		case a > b:
			return 1
		}
		return 0
	})
	budget := func(size int) int { return 2*(c01bMaxHeight(size)+2) + 2 }
	for m, i := range order {
		calls = 0
		t.Add(vals[i])
		vAssert(calls <= budget(m+1), "cost: Add invokes the comparator O(log n) times")
	}
	for _, i := range []int{0, 1, n / 3, n / 2, n - 2, n - 1} {
		calls = 0
		vAssert(t.Contains(vals[i]), "cost: a stored value is found")
		vAssert(calls <= budget(n), "cost: Contains invokes the comparator O(log n) times")
	}
	for m, i := range order {
		calls = 0
		vAssert(t.Remove(vals[i]), "cost: a stored value can be removed")
		vAssert(calls <= budget(n-m), "cost: Remove invokes the comparator O(log n) times")
	}
	vAssert(t.Len() == 0, "cost: the tree is empty again")
	vCover("avl cost done")
}
