package avl

import "gopkg.in/typ.v4"

// C01 / C02 — the AVL tree is a sorted multiset and stays height-balanced.
//
// Step (inductive) form: an arbitrary tree skeleton of depth <= D with symbolic values is
// built directly in the package's representation, the representation invariant is
// assumed (in-order non-decreasing under the comparator, AVL balance on true heights,
// height fields as the code's own calcHeight gives them, count = number of nodes), ONE
// public operation runs with a symbolic argument, and effect + invariant are asserted.
// The parameters SET / BAL select which half is asserted (C01 / C02).

// The comparator: natural order, reversed order, or - only when the parameter PK is 1, for
// the balance property, which does not depend on the comparator being consistent with == -
// an order that looks at part of the value only (the key v>>1; the low bit is a payload), so
// that distinct values can compare as equal.
func c01cmp() (func(a, b int) int, int) {
	n := 2
	if vParam("PK") == 1 {
		n = 3
	}
	switch vChoose("order", n) {
	case 1:
		return func(a, b int) int { return typ.Compare(b, a) }, 1
	case 2:
		return func(a, b int) int { return typ.Compare(a>>1, b>>1) }, 2
	}
	return typ.Compare[int], 0
}

func c01le(rev int, a, b int) bool {
	switch rev {
	case 1:
		return a >= b
	case 2:
		return a>>1 <= b>>1
	}
	return a <= b
}

func c01build(depth int) *node[int] {
	if depth == 0 || vChoose("present", 2) == 0 {
		return nil
	}
	n := &node[int]{value: vInt("val")}
	n.left = c01build(depth - 1)
	n.right = c01build(depth - 1)
	n.height = n.calcHeight()
	return n
}

// true height: empty = -1, leaf = 0
func c01th(n *node[int]) int {
	if n == nil {
		return -1
	}
	l, r := c01th(n.left), c01th(n.right)
	if l > r {
		return l + 1
	}
	return r + 1
}

func c01balanced(n *node[int]) bool {
	if n == nil {
		return true
	}
	d := c01th(n.left) - c01th(n.right)
	return d >= -1 && d <= 1 && c01balanced(n.left) && c01balanced(n.right)
}

func c01heightsOK(n *node[int]) bool {
	if n == nil {
		return true
	}
	return n.height == c01th(n) && c01heightsOK(n.left) && c01heightsOK(n.right)
}

func c01in(n *node[int], out *[]int) {
	if n == nil {
		return
	}
	c01in(n.left, out)
	*out = append(*out, n.value)
	c01in(n.right, out)
}

func c01pre(n *node[int], out *[]int) {
	if n == nil {
		return
	}
	*out = append(*out, n.value)
	c01pre(n.left, out)
	c01pre(n.right, out)
}

func c01post(n *node[int], out *[]int) {
	if n == nil {
		return
	}
	c01post(n.left, out)
	c01post(n.right, out)
	*out = append(*out, n.value)
}

func c01nodes(n *node[int], out *[]*node[int]) {
	if n == nil {
		return
	}
	*out = append(*out, n)
	c01nodes(n.left, out)
	c01nodes(n.right, out)
}

// occurrence counts use 8-bit counters (at most 255 elements): cheaper adders in the VCs
func c01count(xs []int, p int) uint8 {
	var c uint8
	for _, x := range xs {
		c += vB2U8(x == p)
	}
	return c
}

// c01spliceIn: post is pre with v inserted at some position (a non-forking disjunction over
// the positions; the in-order sequence after an insertion differs from the one before by
// exactly that, whatever rotations happened).
func c01spliceIn(post, pre []int, v int) bool {
	if len(post) != len(pre)+1 {
		return false
	}
	any := false
	for idx := 0; idx <= len(pre); idx++ {
		ok := post[idx] == v
		for j := range post {
			switch {
			case j < idx:
				ok = vAnd(ok, post[j] == pre[j])
			case j > idx:
				ok = vAnd(ok, post[j] == pre[j-1])
			}
		}
		any = vOr(any, ok)
	}
	return any
}

// c01spliceOut: post is pre without one occurrence of v.
func c01spliceOut(post, pre []int, v int) bool {
	if len(post)+1 != len(pre) {
		return false
	}
	any := false
	for idx := 0; idx < len(pre); idx++ {
		ok := pre[idx] == v
		for j := range post {
			if j < idx {
				ok = vAnd(ok, post[j] == pre[j])
			} else {
				ok = vAnd(ok, post[j] == pre[j+1])
			}
		}
		any = vOr(any, ok)
	}
	return any
}

// c01same: the same contents. Under a comparator consistent with == that is the same in-order
// sequence; under the partial-key comparator (ord 2) values that compare as equal may appear in
// another relative order, so only the multiset is compared (on a universally quantified probe).
func c01same(ord int, a, b []int, label string) {
	if ord != 2 {
		c01eq(a, b, label)
		return
	}
	vAssert(len(a) == len(b), label)
	p := vInt("probe.same")
	vAssert(c01count(a, p) == c01count(b, p), label)
}

func c01eq(a, b []int, label string) {
	vAssert(len(a) == len(b), label)
	for i := range a {
		if i < len(b) {
			vAssert(a[i] == b[i], label)
		}
	}
}

// c01inv asserts the invariant on the tree after an operation.
func c01inv(t *Tree[int], rev int, what string) []int {
	// the multiset half looks at the tree through its public in-order slice (so that it holds for
	// any representation of the nodes); the balance half necessarily walks the nodes
	in := t.SliceInOrder()
	if vParam("SET") == 1 {
		for i := 1; i < len(in); i++ {
			vAssert(c01le(rev, in[i-1], in[i]), what+": in-order walk is non-decreasing")
		}
		vAssert(t.Len() == len(in), what+": Len equals the number of values in the tree")
	}
	if vParam("BAL") == 1 {
		vAssert(c01balanced(t.root), what+": every node's subtree heights differ by at most one")
		vAssert(c01heightsOK(t.root), what+": cached heights equal the true subtree heights")
	}
	return in
}

func c01walks(t *Tree[int], what string) {
	var in, pre, post []int
	c01in(t.root, &in)
	c01pre(t.root, &pre)
	c01post(t.root, &post)
	gin, gpre, gpost := t.SliceInOrder(), t.SlicePreOrder(), t.SlicePostOrder()
	c01eq(gin, in, what+": SliceInOrder is the in-order traversal of the tree")
	c01eq(gpre, pre, what+": SlicePreOrder is the pre-order traversal of the same tree")
	c01eq(gpost, post, what+": SlicePostOrder is the post-order traversal of the same tree")
	var win, wpre, wpost []int
	t.WalkInOrder(func(v int) {
		win = append(win, v)
		// read-only re-entrancy from the callback
		vAssert(t.Contains(v), "the value being visited is found by Contains (called from the walk callback)")
		vAssert(t.Len() == len(in), "Len called from the walk callback")
	})
	t.WalkPreOrder(func(v int) { wpre = append(wpre, v) })
	t.WalkPostOrder(func(v int) { wpost = append(wpost, v) })
	c01eq(win, in, what+": WalkInOrder visits the in-order traversal")
	c01eq(wpre, pre, what+": WalkPreOrder visits the pre-order traversal")
	c01eq(wpost, post, what+": WalkPostOrder visits the post-order traversal")
}

func VHAvlStepAdd()    { c01step(0) }
func VHAvlStepRemove() { c01step(1) }
func VHAvlStepRead()   { c01step(2 + vChoose("op", 2)) }
func VHAvlStepClone()  { c01step(4 + vChoose("op", 2)) }

func c01step(op int) {
	cmp, rev := c01cmp()
	root := c01build(vParam("D"))
	vAssume(c01balanced(root))
	var pre []int
	c01in(root, &pre)
	for i := 1; i < len(pre); i++ {
		vAssume(c01le(rev, pre[i-1], pre[i]))
		if vParam("STRICT") == 1 {
			vAssume(pre[i-1] != pre[i])
		}
	}
	t := &Tree[int]{compare: cmp, root: root, count: len(pre)}
	n := len(pre)
	set := vParam("SET") == 1
	v := vInt("v")
	present := false
	for _, x := range pre {
		present = vOr(present, x == v)
	}
	switch op {
	case 0: // Add
		t.Add(v)
		post := c01inv(t, rev, "Add")
		if set {
			vAssert(len(post) == n+1, "Add: one more value in the tree")
			vAssert(c01spliceIn(post, pre, v), "Add: the in-order sequence is the old one with the value spliced in (the multiset gains exactly the added value)")
			vAssert(t.Contains(v), "Add: the added value is found")
		}
		if n >= 3 {
			vCover("step: Add on >= 3 nodes")
		}
	case 1: // Remove
		ok := false
		pan := vPanics(func() { ok = t.Remove(v) })
		vAssert(!pan, "Remove does not panic")
		if pan {
			return
		}
		post := c01inv(t, rev, "Remove")
		if set {
			vAssert(ok == present, "Remove reports true exactly when the value is present")
			if ok {
				vAssert(len(post) == n-1, "Remove(present): one value fewer")
				vAssert(c01spliceOut(post, pre, v), "Remove(present): the in-order sequence is the old one without one occurrence of the value")
				vCover("step: Remove present")
			} else {
				c01eq(post, pre, "Remove(absent): the tree is unchanged")
				vAssert(t.Len() == n, "Remove(absent): Len is unchanged")
				vCover("step: Remove absent")
			}
		}
		if ok && n >= 4 {
			vCover("step: Remove on >= 4 nodes")
		}
	case 2: // Contains, Len
		if set {
			vAssert(t.Contains(v) == present, "Contains(v) is true exactly when v is in the tree")
			vAssert(t.Len() == n, "Len is the number of values")
		}
	case 3: // walks and slices
		if set {
			c01walks(t, "walks")
			_ = t.String()
		}
	case 4: // Clone
		var c Tree[int]
		pan := vPanics(func() { c = t.Clone() })
		vAssert(!pan, "Clone works for a tree of any size")
		if pan {
			return
		}
		cin := c.SliceInOrder()
		c01same(rev, cin, pre, "Clone has the same contents")
		vAssert(c.Len() == n, "Clone has the same Len")
		var a, b []*node[int]
		c01nodes(t.root, &a)
		c01nodes(c.root, &b)
		for _, x := range a {
			for _, y := range b {
				vAssert(x != y, "Clone shares no node with the original")
			}
		}
		pan = vPanics(func() { c.Add(v) })
		vAssert(!pan, "the clone is usable (comparator carried over)")
		if !pan {
			c01inv(&c, rev, "clone after Add")
		}
		after := t.SliceInOrder()
		c01eq(after, pre, "operations on the clone leave the original unchanged")
		vAssert(t.Len() == n, "operations on the clone leave the original's Len unchanged")
		if n >= 2 {
			vCover("step: Clone of >= 2 nodes")
		}
	case 5: // Clear
		if !set {
			return
		}
		t.Clear()
		vAssert(t.Len() == 0, "Clear: Len is 0")
		vAssert(len(t.SliceInOrder()) == 0, "Clear: no values")
		vAssert(!t.Contains(v), "Clear: nothing is found")
		t.Add(v)
		vAssert(t.Len() == 1 && t.Contains(v), "Clear: the tree is usable afterwards")
		w, x := vInt("w"), vInt("x")
		pan := vPanics(func() {
			t.Add(w)
			t.Add(x)
			t.Remove(v)
		})
		vAssert(!pan, "Clear: the cleared tree keeps working for any number of values (comparator intact)")
		if !pan {
			vAssert(t.Len() == 2 && t.Contains(w) && t.Contains(x), "Clear: values added after Clear are found")
			c := t.Clone()
			vAssert(c.Len() == 2, "Clear: a clone taken after Clear has the same contents")
			pan = vPanics(func() { c.Add(v); c.Add(w) })
			vAssert(!pan, "Clear: a clone taken after Clear is usable")
		}
	}
}

// VHAvlHist: k operations through the public API only, from NewOrdered / New(reversed).
func VHAvlHist() {
	cmp, rev := c01cmp()
	t := New(cmp)
	p := vInt("probe")
	var cnt uint8
	size := 0
	k := vParam("K")
	for step := 0; step < k; step++ {
		v := vInt("v")
		// (the first WARM operations are Adds: removing from a tree of fewer values than that only
		// repeats shorter histories)
		if step < vParam("WARM") || vChoose("op", 2) == 0 {
			t.Add(v)
			cnt += vB2U8(v == p)
			size++
		} else {
			had := c01count(t.SliceInOrder(), v)
			ok := false
			pan := vPanics(func() { ok = t.Remove(v) })
			vAssert(!pan, "Remove does not panic")
			if pan {
				return
			}
			if vParam("SET") == 1 {
				vAssert(ok == (had != 0), "Remove reports true exactly when the value is present")
			}
			if ok {
				cnt -= vB2U8(v == p)
				size--
			}
		}
		in := c01inv(&t, rev, "history")
		if vParam("SET") == 1 {
			vAssert(len(in) == size, "the tree holds exactly the values added and not yet removed (size)")
			vAssert(c01count(in, p) == cnt, "the tree holds exactly the values added and not yet removed (multiset)")
			vAssert(t.Contains(p) == (cnt != 0), "Contains agrees with the multiset")
			c01eq(t.SliceInOrder(), in, "SliceInOrder lists the tree in order")
			// the other traversals hold the same multiset (duplicates included)
			gpre, gpost := t.SlicePreOrder(), t.SlicePostOrder()
			vAssert(len(gpre) == size && len(gpost) == size, "pre- and post-order slices list every value (size)")
			vAssert(c01count(gpre, p) == cnt && c01count(gpost, p) == cnt, "pre- and post-order slices hold the same multiset as the in-order slice")
			var wpost uint8
			t.WalkPostOrder(func(v int) { wpost += vB2U8(v == p) })
			vAssert(wpost == cnt, "WalkPostOrder visits the same multiset")
		}
	}
	if size >= 3 {
		vCover("history ends with >= 3 values")
	}
	{
		// Clone of a tree that has a history (stale internal fields included) is independent
		before := t.SliceInOrder()
		var c Tree[int]
		pan := vPanics(func() { c = t.Clone() })
		vAssert(!pan, "history: Clone works for a tree of any size")
		if pan {
			return
		}
		cin := c.SliceInOrder()
		c01same(rev, cin, before, "history: Clone has the same contents")
		vAssert(c.Len() == size, "history: Clone has the same Len")
		var a, b []*node[int]
		c01nodes(t.root, &a)
		c01nodes(c.root, &b)
		for _, x := range a {
			for _, y := range b {
				vAssert(x != y, "history: Clone shares no node with the original")
			}
		}
		c.Add(vInt("cv"))
		c01inv(&c, rev, "history: clone after Add")
		if len(before) > 0 {
			c.Remove(before[0])
			c01inv(&c, rev, "history: clone after Remove")
		}
		after := t.SliceInOrder()
		c01eq(after, before, "history: operations on the clone leave the original unchanged")
		vAssert(t.Len() == size, "history: operations on the clone leave the original's Len unchanged")
	}
}

// maximal height (in edges) of an AVL tree with n nodes
func c02maxHeight(n int) int {
	// minimal node counts: N(0)=1, N(1)=2, N(h)=N(h-1)+N(h-2)+1
	a, b, h := 1, 2, 0
	for b <= n {
		a, b = b, a+b+1
		h++
	}
	return h
}

// VHAvlSorted: n values in a fixed relative order (increasing, decreasing, zig-zag) added one
// by one; balance and the logarithmic depth bound after every insertion, then removed again.
func VHAvlSorted() {
	n := vParam("NS")
	pat := vChoose("pattern", 3)
	vals := make([]int, n)
	for i := range vals {
		vals[i] = vInt("s")
	}
	for i := 1; i < n; i++ {
		vAssume(vals[i-1] < vals[i])
	}
	order := make([]int, 0, n)
	switch pat {
	case 0:
		for i := 0; i < n; i++ {
			order = append(order, i)
		}
	case 1:
		for i := n - 1; i >= 0; i-- {
			order = append(order, i)
		}
	case 2:
		for lo, hi := 0, n-1; lo <= hi; lo, hi = lo+1, hi-1 {
			order = append(order, lo)
			if hi != lo {
				order = append(order, hi)
			}
		}
	}
	t := NewOrdered[int]()
	for m, i := range order {
		t.Add(vals[i])
		vAssert(c01balanced(t.root), "sorted input: every node's subtree heights differ by at most one after each Add")
		vAssert(c01th(t.root) <= c02maxHeight(m+1), "sorted input: depth stays within the AVL bound (<= 1.4405*log2(n+2) levels)")
	}
	vAssert(t.Len() == n, "sorted input: all values stored")
	for m, i := range order {
		vAssert(t.Remove(vals[i]), "sorted input: every value can be removed again")
		vAssert(c01balanced(t.root), "sorted input: balanced after each Remove")
		vAssert(c01th(t.root) <= c02maxHeight(n-m-1) || n-m-1 == 0, "sorted input: depth bound after each Remove")
	}
	vCover("sorted inserts done")
}

// c02fib builds the sparsest AVL tree of the given height (every node's subtrees differ by
// exactly one); orient selects which side is the taller one at even/odd levels.
func c02fib(h, level, orient int, next *int, vals *[]int) *node[int] {
	if h < 0 {
		return nil
	}
	n := &node[int]{}
	tallLeft := orient == 0 || (orient == 2 && level%2 == 0) || (orient == 3 && level%2 == 1)
	lh, rh := h-1, h-2
	if !tallLeft {
		lh, rh = h-2, h-1
	}
	n.left = c02fib(lh, level+1, orient, next, vals)
	n.value = (*vals)[*next]
	*next++
	n.right = c02fib(rh, level+1, orient, next, vals)
	n.height = n.calcHeight()
	return n
}

func c02fibSize(h int) int {
	if h < 0 {
		return 0
	}
	return 1 + c02fibSize(h-1) + c02fibSize(h-2)
}

// VHAvlFib: from the sparsest AVL trees of height H (four orientations), remove any one
// value or add a value in any gap: the result must be balanced with consistent heights.
func VHAvlFib() {
	h := vParam("H")
	n := c02fibSize(h)
	vals := make([]int, n)
	for i := range vals {
		vals[i] = vInt("f")
		if i > 0 {
			vAssume(vals[i-1] < vals[i])
		}
	}
	next := 0
	root := c02fib(h, 0, vChoose("orient", 4), &next, &vals)
	t := &Tree[int]{compare: typ.Compare[int], root: root, count: n}
	vAssume(c01balanced(t.root))
	if vChoose("op", 2) == 0 {
		k := vChoose("which", n)
		vAssert(t.Remove(vals[k]), "fibonacci tree: Remove finds the value")
		vAssert(c01balanced(t.root), "fibonacci tree: every node's subtree heights differ by at most one after Remove")
		vAssert(c01heightsOK(t.root), "fibonacci tree: cached heights equal the true heights after Remove")
		vAssert(c01th(t.root) <= c02maxHeight(n-1), "fibonacci tree: depth bound after Remove")
		var in []int
		c01in(t.root, &in)
		vAssert(len(in) == n-1, "fibonacci tree: exactly one value removed")
		vCover("fib: remove")
	} else {
		g := vChoose("gap", n+1)
		v := vInt("new")
		if g > 0 {
			vAssume(vals[g-1] < v)
		}
		if g < n {
			vAssume(v < vals[g])
		}
		t.Add(v)
		vAssert(c01balanced(t.root), "fibonacci tree: balanced after Add")
		vAssert(c01heightsOK(t.root), "fibonacci tree: cached heights equal the true heights after Add")
		vCover("fib: add")
	}
}

// c01fast: true height of n; *bal and *hts are cleared if some node is out of balance or caches
// a wrong height (one pass, for the big trees).
func c01fast(n *node[int], bal, hts *bool) int {
	if n == nil {
		return -1
	}
	l, r := c01fast(n.left, bal, hts), c01fast(n.right, bal, hts)
	if d := l - r; d < -1 || d > 1 {
		*bal = false
	}
	h := l + 1
	if r > l {
		h = r + 1
	}
	if n.height != h {
		*hts = false
	}
	return h
}

// VHAvlFibDeep: the same on the sparsest AVL tree of a height beyond 16 (4180 concrete values for
// H=17, built directly in the representation): an insertion or removal at the end of the longest
// root-to-leaf path, at the other end and in the middle must retrace the whole path. In the
// sparsest tree a single insertion is absorbed by a rotation right where it happens, so a third
// mode adds three symbolic values into the three gaps at the deep end of the two one-sided
// orientations: the first ones fill the bottom of the path, after which a height change travels
// upwards before a rotation absorbs it.
func VHAvlFibDeep() {
	h := vParam("HDEEP")
	n := c02fibSize(h)
	vals := make([]int, n)
	for i := range vals {
		vals[i] = 8 * i
	}
	next := 0
	orient := vChoose("orient", 4)
	root := c02fib(h, 0, orient, &next, &vals)
	t := &Tree[int]{compare: typ.Compare[int], root: root, count: n}
	bal, hts := true, true
	vAssert(c01fast(t.root, &bal, &hts) == h && bal && hts, "deep fibonacci tree: built with the intended height")
	size := n
	check := func(what string) {
		bal, hts := true, true
		ht := c01fast(t.root, &bal, &hts)
		vAssert(bal, "deep fibonacci tree: every node's subtree heights differ by at most one after "+what)
		vAssert(hts, "deep fibonacci tree: cached heights equal the true heights after "+what)
		vAssert(ht <= c02maxHeight(size), "deep fibonacci tree: depth bound after "+what)
	}
	switch vChoose("op", 3) {
	case 0:
		at := []int{0, 1, n / 2, n - 2, n - 1}[vChoose("at", 5)]
		vAssert(t.Remove(vals[at]), "deep fibonacci tree: Remove finds the value")
		size--
		check("Remove")
	case 1:
		at := []int{0, 1, n / 2, n - 2, n - 1}[vChoose("at", 5)]
		v := vInt("new")
		vAssume(vAnd(v >= vals[at]-1, v <= vals[at]+1))
		t.Add(v)
		size++
		check("Add")
		vAssert(t.Contains(v), "deep fibonacci tree: the value was added")
	case 2:
		if orient > 1 {
			return
		}
		lo, hi := -8, 8*2 // the gaps before vals[0] .. vals[2]
		if orient == 1 {
			lo, hi = 8*(n-3), 8*n
		}
		for k := 0; k < 3; k++ {
			v := vInt("new")
			vAssume(vAnd(v > lo, v < hi))
			t.Add(v)
			size++
		}
		check("several Adds at the deep end")
		vCover("fib deep: three adds at one end")
	}
	vAssert(t.Len() == size, "deep fibonacci tree: Len follows")
	var in []int
	c01in(t.root, &in)
	vAssert(len(in) == size, "deep fibonacci tree: the walk lists every value")
	for i := 1; i < len(in); i++ {
		vAssert(in[i-1] <= in[i], "deep fibonacci tree: still ordered")
	}
	vCover("fib deep done")
}
