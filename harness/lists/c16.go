package lists

// C16 — Queue is FIFO and Stack is LIFO under every interleaving of insertions and removals.

func VHQueue() {
	var q Queue[int]
	var model []int
	k := vParam("K")
	for step := 0; step < k; step++ {
		switch vChoose("op", 3) {
		case 0:
			v := vInt("v")
			q.Enqueue(v)
			model = append(model, v)
		case 1:
			got, ok := q.Dequeue()
			if len(model) == 0 {
				vAssert(!ok, "Dequeue on an empty queue reports false")
				vAssert(got == 0, "Dequeue on an empty queue returns the zero value")
				vCover("dequeue empty")
			} else {
				vAssert(ok, "Dequeue on a non-empty queue reports true")
				vAssert(got == model[0], "Dequeue returns values in the order they were enqueued")
				model = model[1:]
			}
		case 2:
			got, ok := q.Peek()
			if len(model) == 0 {
				vAssert(!ok, "Peek on an empty queue reports false")
				vAssert(got == 0, "Peek on an empty queue returns the zero value")
			} else {
				vAssert(ok, "Peek on a non-empty queue reports true")
				vAssert(got == model[0], "Peek returns what the next Dequeue would return")
			}
		}
		vAssert(q.Len() == len(model), "Len is the number of values inside")
	}
	if len(model) >= 2 {
		vCover("queue ends with >= 2")
	}
}

func VHStack() {
	var s Stack[int]
	var model []int
	k := vParam("K")
	for step := 0; step < k; step++ {
		switch vChoose("op", 3) {
		case 0:
			v := vInt("v")
			s.Push(v)
			model = append(model, v)
		case 1:
			got, ok := s.Pop()
			if len(model) == 0 {
				vAssert(!ok, "Pop on an empty stack reports false")
				vAssert(got == 0, "Pop on an empty stack returns the zero value")
				vCover("pop empty")
			} else {
				vAssert(ok, "Pop on a non-empty stack reports true")
				vAssert(got == model[len(model)-1], "Pop returns values in the reverse order they were pushed")
				model = model[:len(model)-1]
			}
		case 2:
			got, ok := s.Peek()
			if len(model) == 0 {
				vAssert(!ok, "Peek on an empty stack reports false")
				vAssert(got == 0, "Peek on an empty stack returns the zero value")
			} else {
				vAssert(ok, "Peek on a non-empty stack reports true")
				vAssert(got == model[len(model)-1], "Peek returns what the next Pop would return")
			}
		}
		vAssert(len(s) == len(model), "len is the number of values inside")
		for i := range model {
			vAssert(s[i] == model[i], "stack contents are the pushed values not yet popped")
		}
	}
	var ns *Stack[int]
	g, ok := ns.Pop()
	vAssert(!ok && g == 0, "Pop on a nil stack returns zero and false")
	g, ok = ns.Peek()
	vAssert(!ok && g == 0, "Peek on a nil stack returns zero and false")
	if len(model) >= 2 {
		vCover("stack ends with >= 2")
	}
}

// VHQueuePhases / VHStackPhases: long structured histories - fill, partial drain, refill past
// any internal capacity, drain completely - with every combination of phase lengths up to P.
// c16len picks a phase length: every length up to P, or (SPARSE) a length around a power of
// two up to 64 - the places where chunked or ring-buffer representations wrap, grow or recycle.
func c16len(name string, p, max int) int {
	if vParam("SPARSE") == 0 {
		n := p
		if max >= 0 && max < n {
			n = max
		}
		return vChoose(name, n+1)
	}
	cand := []int{0, 1, 2, 7, 8, 9, 16, 17, 31, 32, 33, 34, 64, 65}
	if vParam("SPARSE") == 2 {
		// few, large lengths: shrink/grow thresholds of slice-backed representations
		cand = []int{0, 1, 63, 64, 65, 127, 128, 129, 192, 255, 256, 257, 300}
	}
	var ok []int
	for _, c := range cand {
		if max < 0 || c <= max {
			ok = append(ok, c)
		}
	}
	if max > 0 {
		ok = append(ok, max) // drain completely
		if max > 1 {
			ok = append(ok, max-1)
		}
	}
	return ok[vChoose(name, len(ok))]
}

func VHQueuePhases() {
	var q Queue[int]
	var model []int
	p := vParam("P")
	phase := func(enq bool, n int) {
		for i := 0; i < n; i++ {
			if enq {
				v := vInt("v")
				q.Enqueue(v)
				model = append(model, v)
				continue
			}
			got, ok := q.Dequeue()
			vAssert(ok, "phases: Dequeue on a non-empty queue reports true")
			vAssert(got == model[0], "phases: Dequeue returns values in the order they were enqueued")
			model = model[1:]
		}
		pk, ok := q.Peek()
		vAssert(ok == (len(model) > 0), "phases: Peek reports emptiness")
		if len(model) > 0 {
			vAssert(pk == model[0], "phases: Peek returns the next value to dequeue")
		} else {
			vAssert(pk == 0, "phases: Peek on an empty queue returns the zero value, whatever passed through before")
		}
		vAssert(q.Len() == len(model), "phases: Len is the number of values inside")
	}
	phase(true, c16len("fill", p, -1))
	phase(false, c16len("drain", p, len(model)))
	phase(true, c16len("refill", p, -1))
	phase(false, c16len("drain2", p, len(model)))
	phase(true, vChoose("refill2", 3))
	phase(false, len(model))
	dz, ok := q.Dequeue()
	vAssert(!ok, "phases: the drained queue is empty")
	vAssert(dz == 0, "phases: Dequeue on the drained queue returns the zero value")
	pz, pok := q.Peek()
	vAssert(!pok && pz == 0, "phases: Peek on the drained queue returns the zero value and false")
	q.Enqueue(5)
	pz, pok = q.Peek()
	vAssert(pok && pz == 5 && q.Len() == 1, "phases: the drained queue is usable again")
	vCover("queue phases done")
}

func VHStackPhases() {
	var s Stack[int]
	var model []int
	p := vParam("P")
	phase := func(push bool, n int) {
		for i := 0; i < n; i++ {
			if push {
				v := vInt("v")
				s.Push(v)
				model = append(model, v)
				continue
			}
			got, ok := s.Pop()
			vAssert(ok, "phases: Pop on a non-empty stack reports true")
			vAssert(got == model[len(model)-1], "phases: Pop returns values in reverse order of pushing")
			model = model[:len(model)-1]
		}
		vAssert(len(s) == len(model), "phases: len is the number of values inside")
	}
	phase(true, c16len("fill", p, -1))
	phase(false, c16len("drain", p, len(model)))
	phase(true, c16len("refill", p, -1))
	phase(false, len(model))
	dz, ok := s.Pop()
	vAssert(!ok, "phases: the drained stack is empty")
	vAssert(dz == 0, "phases: Pop on the drained stack returns the zero value")
	pz, pok := s.Peek()
	vAssert(!pok && pz == 0, "phases: Peek on the drained stack returns the zero value and false")
	s.Push(5)
	pz, pok = s.Peek()
	vAssert(pok && pz == 5 && len(s) == 1, "phases: the drained stack is usable again")
	vCover("stack phases done")
}
