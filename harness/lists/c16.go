package lists

// C16 — Queue is FIFO and Stack is LIFO under every interleaving of insertions and removals.

func VHQueue() {
	var q Queue[int]
	var model []int
	k := vParam("K")
	for step := 0; step < k; step++ {
		switch vChoose("op", 3) {
		case 0:
			v := vInt("v")
			q.Enqueue(v)
			model = append(model, v)
		case 1:
			got, ok := q.Dequeue()
			if len(model) == 0 {
				vAssert(!ok, "Dequeue on an empty queue reports false")
				vAssert(got == 0, "Dequeue on an empty queue returns the zero value")
				vCover("dequeue empty")
			} else {
				vAssert(ok, "Dequeue on a non-empty queue reports true")
				vAssert(got == model[0], "Dequeue returns values in the order they were enqueued")
				model = model[1:]
			}
		case 2:
			got, ok := q.Peek()
			if len(model) == 0 {
				vAssert(!ok, "Peek on an empty queue reports false")
				vAssert(got == 0, "Peek on an empty queue returns the zero value")
			} else {
				vAssert(ok, "Peek on a non-empty queue reports true")
				vAssert(got == model[0], "Peek returns what the next Dequeue would return")
			}
		}
		vAssert(q.Len() == len(model), "Len is the number of values inside")
	}
	if len(model) >= 2 {
		vCover("queue ends with >= 2")
	}
}

func VHStack() {
	var s Stack[int]
	var model []int
	k := vParam("K")
	for step := 0; step < k; step++ {
		switch vChoose("op", 3) {
		case 0:
			v := vInt("v")
			s.Push(v)
			model = append(model, v)
		case 1:
			got, ok := s.Pop()
			if len(model) == 0 {
				vAssert(!ok, "Pop on an empty stack reports false")
				vAssert(got == 0, "Pop on an empty stack returns the zero value")
				vCover("pop empty")
			} else {
				vAssert(ok, "Pop on a non-empty stack reports true")
				vAssert(got == model[len(model)-1], "Pop returns values in the reverse order they were pushed")
				model = model[:len(model)-1]
			}
		case 2:
			got, ok := s.Peek()
			if len(model) == 0 {
				vAssert(!ok, "Peek on an empty stack reports false")
				vAssert(got == 0, "Peek on an empty stack returns the zero value")
			} else {
				vAssert(ok, "Peek on a non-empty stack reports true")
				vAssert(got == model[len(model)-1], "Peek returns what the next Pop would return")
			}
		}
		vAssert(len(s) == len(model), "len is the number of values inside")
		for i := range model {
			vAssert(s[i] == model[i], "stack contents are the pushed values not yet popped")
		}
	}
	var ns *Stack[int]
	g, ok := ns.Pop()
	vAssert(!ok && g == 0, "Pop on a nil stack returns zero and false")
	g, ok = ns.Peek()
	vAssert(!ok && g == 0, "Peek on a nil stack returns zero and false")
	if len(model) >= 2 {
		vCover("stack ends with >= 2")
	}
}
