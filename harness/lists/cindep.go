package lists

// Independent lists, rings, queues and stacks used from different goroutines must not
// influence each other (C06, C16): fixed scripts, fingerprints compared with a sequential run,
// no data race.

func cindepRun(seed, off int) []int {
	var out []int
	l := New[int]()
	for i := 0; i < 6; i++ {
		if (i+seed)%2 == 0 {
			l.PushBack(i + off)
		} else {
			l.PushFront(i + off)
		}
	}
	e := l.Front().Next()
	l.MoveToBack(e)
	l.InsertAfter(77+off, l.Front())
	l.Remove(l.Back().Prev())
	for x := l.Front(); x != nil; x = x.Next() {
		out = append(out, x.Value)
	}
	out = append(out, l.Len())
	r := NewRing[int](5)
	for i := 0; i < 5; i++ {
		r.Value = i*seed + off
		r = r.Next()
	}
	u := r.Unlink(2)
	r.Move(1).Link(u)
	r.Do(func(v int) { out = append(out, v) })
	out = append(out, r.Len())
	var q Queue[int]
	var s Stack[int]
	for i := 0; i < 20; i++ {
		q.Enqueue(i*seed + off)
		s.Push(i*seed + off)
		if i%3 == 2 {
			a, _ := q.Dequeue()
			b, _ := s.Pop()
			out = append(out, a, b)
		}
	}
	for q.Len() > 0 {
		a, _ := q.Dequeue()
		b, _ := s.Pop()
		out = append(out, a, b)
	}
	return out
}

func VHIndepConc() {
	off := vInt("off")
	vAssume(vAnd(off >= -1000, off <= 1000))
	expA, expB := cindepRun(1, off), cindepRun(2, off)
	var gotA, gotB []int
	vGo(func() { gotA = cindepRun(1, off) })
	vGo(func() { gotB = cindepRun(2, off) })
	vAssert(vWait(), "independent containers: both goroutines finish")
	vAssert(len(gotA) == len(expA) && len(gotB) == len(expB), "independent containers used concurrently behave as they do sequentially (length)")
	for i := range expA {
		if i < len(gotA) {
			vAssert(gotA[i] == expA[i], "independent containers used concurrently behave as they do sequentially")
		}
	}
	for i := range expB {
		if i < len(gotB) {
			vAssert(gotB[i] == expB[i], "independent containers used concurrently behave as they do sequentially")
		}
	}
	vCover("indep conc done")
}
