package lists

import (
	"container/list"
	"container/ring"
)

// C06 — lists.List / lists.Ring are observationally identical to container/list and
// container/ring: both are executed from source, driven in lock-step through parallel
// handle tables, and compared after every operation.

type c06 struct {
	la [2]*List[int]
	lb [2]*list.List
	ha []*Element[int]
	hb []*list.Element
}

// the sentinel of a container/list holds a nil Value where lists.List holds the zero int
func c06lv(v any) int {
	if v == nil {
		return 0
	}
	return v.(int)
}

func (s *c06) add(a *Element[int], b *list.Element) {
	s.ha = append(s.ha, a)
	s.hb = append(s.hb, b)
}

func (s *c06) idxA(e *Element[int]) int {
	if e == nil {
		return -1
	}
	for i, h := range s.ha {
		if h == e {
			return i
		}
	}
	return -2
}

func (s *c06) idxB(e *list.Element) int {
	if e == nil {
		return -1
	}
	for i, h := range s.hb {
		if h == e {
			return i
		}
	}
	return -2
}

// ret checks that an element returned by both sides is "the same" and registers new ones.
func (s *c06) ret(a *Element[int], b *list.Element, label string) {
	ia, ib := s.idxA(a), s.idxB(b)
	vAssert(ia == ib, label)
	if ia == -2 && ib == -2 {
		vAssert(a.Value == c06lv(b.Value), label)
		s.add(a, b)
	}
}

// c06wf: the reference list is well-formed as far as its API shows: the forward traversal
// has Len() elements and the backward traversal is its reverse. container/list leaves this
// state only through misuse - mutating through a handle that survived Init() (its list pointer
// still names the list, its links are those of the old contents), after which Len and the
// links disagree. What container/list does from there on is an accident of its link order,
// not behaviour a fork must reproduce: such histories are cut where the damage shows.
func c06wf(b *list.List) bool {
	const bound = 24
	var fw []*list.Element
	for e := b.Front(); e != nil && len(fw) <= bound; e = e.Next() {
		fw = append(fw, e)
	}
	if len(fw) != b.Len() {
		return false
	}
	i := len(fw)
	for e := b.Back(); e != nil; e = e.Prev() {
		i--
		if i < 0 || fw[i] != e {
			return false
		}
	}
	return i == 0
}

func (s *c06) compare(what string) {
	const bound = 24
	for li := 0; li < 2; li++ {
		if !c06wf(s.lb[li]) {
			vAssume(false)
		}
	}
	for li := 0; li < 2; li++ {
		a, b := s.la[li], s.lb[li]
		vAssert(a.Len() == b.Len(), what+": same Len")
		ea, eb := a.Front(), b.Front()
		for i := 0; i < bound && (ea != nil || eb != nil); i++ {
			vAssert(ea != nil && eb != nil, what+": same forward traversal length")
			if ea == nil || eb == nil {
				return
			}
			vAssert(ea.Value == c06lv(eb.Value), what+": same values in forward traversal")
			vAssert(s.idxA(ea) == s.idxB(eb), what+": same elements in forward traversal")
			ea, eb = ea.Next(), eb.Next()
		}
		vAssert(ea == nil && eb == nil, what+": forward traversal terminates")
		ea, eb = a.Back(), b.Back()
		for i := 0; i < bound && (ea != nil || eb != nil); i++ {
			vAssert(ea != nil && eb != nil, what+": same backward traversal length")
			if ea == nil || eb == nil {
				return
			}
			vAssert(ea.Value == c06lv(eb.Value), what+": same values in backward traversal")
			vAssert(s.idxA(ea) == s.idxB(eb), what+": same elements in backward traversal")
			ea, eb = ea.Prev(), eb.Prev()
		}
		vAssert(ea == nil && eb == nil, what+": backward traversal terminates")
	}
	for i := range s.ha {
		vAssert(s.idxA(s.ha[i].Next()) == s.idxB(s.hb[i].Next()), what+": same Next of every handle")
		vAssert(s.idxA(s.ha[i].Prev()) == s.idxB(s.hb[i].Prev()), what+": same Prev of every handle")
		vAssert(s.ha[i].Value == c06lv(s.hb[i].Value), what+": same Value of every handle")
	}
}

func c06pre() *c06 {
	s := &c06{}
	if vChoose("l0kind", 2) == 0 {
		s.la[0], s.lb[0] = new(List[int]), new(list.List) // zero value, not initialised
	} else {
		s.la[0], s.lb[0] = New[int](), list.New()
	}
	s.la[1], s.lb[1] = New[int](), list.New()
	n0 := vChoose("n0", vParam("N0")+1)
	n1 := vChoose("n1", vParam("N1")+1)
	for i := 0; i < n0; i++ {
		v := vInt("v")
		s.add(s.la[0].PushBack(v), s.lb[0].PushBack(v))
	}
	for i := 0; i < n1; i++ {
		v := vInt("w")
		s.add(s.la[1].PushBack(v), s.lb[1].PushBack(v))
	}
	if vParam("STALE") == 1 {
		if vChoose("removed", 2) == 1 {
			v := vInt("r")
			a, b := s.la[0].PushFront(v), s.lb[0].PushFront(v)
			s.add(a, b)
			s.la[0].Remove(a)
			s.lb[0].Remove(b)
		}
		if vChoose("reinit", 2) == 1 {
			s.la[0].Init() // handles pushed before still name the list
			s.lb[0].Init()
			// ... and using one of them afterwards can leave container/list with Len and links that
			// disagree; the fork must follow it as long as the list still looks well-formed (c06wf)
			if vChoose("postpush", 2) == 1 {
				v := vInt("p")
				s.add(s.la[0].PushBack(v), s.lb[0].PushBack(v))
			}
			if nh := len(s.ha); nh > 0 && vChoose("staleRemove", 2) == 1 {
				e := vChoose("stale", nh)
				s.la[0].Remove(s.ha[e])
				s.lb[0].Remove(s.hb[e])
				vCover("list: a handle that survived Init is removed afterwards")
			}
		}
	}
	return s
}

func (s *c06) op(step string) {
	a, b := s.la[0], s.lb[0]
	nh := len(s.ha)
	pick := func(name string) int {
		if nh == 0 {
			vAssume(false)
		}
		return vChoose(name, nh)
	}
	switch vChoose("op", 12) {
	case 0:
		v := vInt("x")
		s.ret(a.PushFront(v), b.PushFront(v), step+"PushFront: same returned element")
	case 1:
		v := vInt("x")
		s.ret(a.PushBack(v), b.PushBack(v), step+"PushBack: same returned element")
	case 2:
		v, m := vInt("x"), pick("mark")
		s.ret(a.InsertBefore(v, s.ha[m]), b.InsertBefore(v, s.hb[m]), step+"InsertBefore: same returned element")
	case 3:
		v, m := vInt("x"), pick("mark")
		s.ret(a.InsertAfter(v, s.ha[m]), b.InsertAfter(v, s.hb[m]), step+"InsertAfter: same returned element")
	case 4:
		e := pick("e")
		vAssert(a.Remove(s.ha[e]) == c06lv(b.Remove(s.hb[e])), step+"Remove: same returned value")
	case 5:
		e := pick("e")
		a.MoveToFront(s.ha[e])
		b.MoveToFront(s.hb[e])
	case 6:
		e := pick("e")
		a.MoveToBack(s.ha[e])
		b.MoveToBack(s.hb[e])
	case 7:
		e, m := pick("e"), pick("mark")
		a.MoveBefore(s.ha[e], s.ha[m])
		b.MoveBefore(s.hb[e], s.hb[m])
	case 8:
		e, m := pick("e"), pick("mark")
		a.MoveAfter(s.ha[e], s.ha[m])
		b.MoveAfter(s.hb[e], s.hb[m])
	case 9:
		o := vChoose("other", 2) // 0: the list itself, 1: the other list
		a.PushBackList(s.la[o])
		b.PushBackList(s.lb[o])
	case 10:
		o := vChoose("other", 2)
		a.PushFrontList(s.la[o])
		b.PushFrontList(s.lb[o])
	case 11:
		ra, rb := a.Init(), b.Init()
		vAssert(ra == a && rb == b, step+"Init returns the list")
	}
}

func VHListStep() {
	s := c06pre()
	s.compare("pre-state")
	steps := vParam("STEPS")
	for i := 0; i < steps; i++ {
		s.op("")
		s.compare("after operation")
	}
	if len(s.ha) >= 4 {
		vCover("list: >= 4 handles")
	}
}

// ---- lists at scale ----

// c06cmpLong: full forward and backward comparison of two lists of any length.
func c06cmpLong(a *List[int], b *list.List, what string) {
	vAssert(a.Len() == b.Len(), what+": same Len")
	bound := 2*b.Len() + 4
	ea, eb := a.Front(), b.Front()
	for i := 0; i < bound && (ea != nil || eb != nil); i++ {
		vAssert(ea != nil && eb != nil, what+": same forward traversal length")
		if ea == nil || eb == nil {
			return
		}
		vAssert(ea.Value == c06lv(eb.Value), what+": same values in forward traversal")
		ea, eb = ea.Next(), eb.Next()
	}
	vAssert(ea == nil && eb == nil, what+": forward traversal terminates")
	ea, eb = a.Back(), b.Back()
	for i := 0; i < bound && (ea != nil || eb != nil); i++ {
		vAssert(ea != nil && eb != nil, what+": same backward traversal length")
		if ea == nil || eb == nil {
			return
		}
		vAssert(ea.Value == c06lv(eb.Value), what+": same values in backward traversal")
		ea, eb = ea.Prev(), eb.Prev()
	}
	vAssert(ea == nil && eb == nil, what+": backward traversal terminates")
}

// VHListLong: lists of 63, 64, 65 and NL symbolic values (so that anything done in blocks or
// above a size threshold is passed): PushBackList / PushFrontList of the list onto itself and of
// another long list, then a sweep of removals, moves and insertions over the whole list, compared
// with container/list in full after every stage.
func VHListLong() {
	n := []int{63, 64, 65, vParam("NL")}[vChoose("n", 4)]
	a, b := New[int](), list.New()
	var ha []*Element[int]
	var hb []*list.Element
	for i := 0; i < n; i++ {
		v := vInt("v")
		ha = append(ha, a.PushBack(v))
		hb = append(hb, b.PushBack(v))
	}
	oa, ob := New[int](), list.New()
	for i := 0; i < n+1; i++ {
		v := vInt("w")
		oa.PushFront(v)
		ob.PushFront(v)
	}
	c06cmpLong(a, b, "long list: built")
	switch vChoose("op", 4) {
	case 0:
		a.PushBackList(a)
		b.PushBackList(b)
	case 1:
		a.PushFrontList(a)
		b.PushFrontList(b)
	case 2:
		a.PushBackList(oa)
		b.PushBackList(ob)
	case 3:
		a.PushFrontList(oa)
		b.PushFrontList(ob)
	}
	c06cmpLong(a, b, "long list: after Push*List")
	c06cmpLong(oa, ob, "long list: the argument of Push*List is unchanged")
	for i := 0; i < n; i++ {
		switch i % 5 {
		case 0:
			vAssert(a.Remove(ha[i]) == c06lv(b.Remove(hb[i])), "long list: Remove returns the value")
		case 1:
			a.MoveToFront(ha[i])
			b.MoveToFront(hb[i])
		case 2:
			a.MoveToBack(ha[i])
			b.MoveToBack(hb[i])
		case 3:
			j := (i * 7) % n
			a.MoveBefore(ha[i], ha[j]) // (ha[j] may have been removed: then nothing happens)
			b.MoveBefore(hb[i], hb[j])
		case 4:
			v := vInt("x")
			a.InsertAfter(v, ha[i])
			b.InsertAfter(v, hb[i])
		}
	}
	c06cmpLong(a, b, "long list: after a sweep of removals, moves and insertions")
	for i := range ha {
		na, nb := ha[i].Next(), hb[i].Next()
		vAssert((na == nil) == (nb == nil), "long list: same Next of every handle")
		if na != nil && nb != nil {
			vAssert(na.Value == c06lv(nb.Value), "long list: same Next of every handle")
		}
	}
	vCover("list long done")
}

// ---- rings ----

type c06r struct {
	ha []*Ring[int]
	hb []*ring.Ring
}

func (s *c06r) idxA(r *Ring[int]) int {
	if r == nil {
		return -1
	}
	for i, h := range s.ha {
		if h == r {
			return i
		}
	}
	return -2
}

func (s *c06r) idxB(r *ring.Ring) int {
	if r == nil {
		return -1
	}
	for i, h := range s.hb {
		if h == r {
			return i
		}
	}
	return -2
}

func (s *c06r) mk(n int, name string) (*Ring[int], *ring.Ring) {
	a, b := NewRing[int](n), ring.New(n)
	pa, pb := a, b
	for i := 0; i < n; i++ {
		v := vInt(name)
		pa.Value = v
		pb.Value = v
		s.ha = append(s.ha, pa)
		s.hb = append(s.hb, pb)
		pa, pb = pa.Next(), pb.Next()
	}
	return a, b
}

func c06val(b *ring.Ring) int {
	if b.Value == nil {
		return 0
	}
	return c06lv(b.Value)
}

func (s *c06r) compare(what string) {
	total := len(s.ha)
	for i := range s.ha {
		a, b := s.ha[i], s.hb[i]
		vAssert(a.Len() == b.Len(), what+": same Len from every element")
		pa, pb := a, b
		for k := 0; k <= total; k++ {
			vAssert(s.idxA(pa) == s.idxB(pb), what+": same Next chain from every element")
			vAssert(pa.Value == c06val(pb), what+": same values along the ring")
			pa, pb = pa.Next(), pb.Next()
		}
		pa, pb = a, b
		for k := 0; k <= total; k++ {
			vAssert(s.idxA(pa) == s.idxB(pb), what+": same Prev chain from every element")
			pa, pb = pa.Prev(), pb.Prev()
		}
	}
}

func VHRingStep() {
	s := &c06r{}
	var ra *Ring[int]
	var rb *ring.Ring
	rn := vChoose("rlen", vParam("RN")+1) // 0 = zero-value ring
	if rn == 0 {
		ra, rb = new(Ring[int]), new(ring.Ring)
		s.ha = append(s.ha, ra)
		s.hb = append(s.hb, rb)
	} else {
		ra, rb = s.mk(rn, "rv")
	}
	if rn != 0 || vChoose("touchZeroRing", 2) == 1 {
		s.compare("pre-state") // (comparing calls Len/Next: on a zero ring that initialises it)
	} else {
		vCover("ring: operation is the first call on an untouched zero ring")
	}
	n := vRange("n", -vParam("CNT"), vParam("CNT"))
	switch vChoose("op", 7) {
	case 6:
		// Do with a callback that changes the ring behind the element being visited (linking a
		// new element in, or unlinking the next one) without touching *r itself, which is the
		// only thing container/ring leaves undefined.
		total := len(s.ha)
		at := vChoose("do.at", total)
		kind := vChoose("do.kind", 2)
		pa, pb := ra.Move(at), rb.Move(at)
		if pb == rb || pb.Next() == rb || (kind == 1 && pb.Next().Next() == rb) {
			return
		}
		na, nb := s.mk(1, "dv")
		var da, db []int
		ia, ib := 0, 0
		panA := vPanics(func() {
			ra.Do(func(v int) {
				if ia == at {
					if kind == 0 {
						pa.Link(na)
					} else {
						pa.Unlink(1)
					}
				}
				ia++
				if ia > 3*total+3 {
					panic("Do does not terminate")
				}
				da = append(da, v)
			})
		})
		rb.Do(func(v any) {
			if ib == at {
				if kind == 0 {
					pb.Link(nb)
				} else {
					pb.Unlink(1)
				}
			}
			ib++
			db = append(db, c06lv(v))
		})
		vAssert(!panA, "Do with a callback that links/unlinks behind the visited element terminates without panicking")
		vAssert(len(da) == len(db), "Do (mutating callback): same number of calls")
		for i := range da {
			if i < len(db) {
				vAssert(da[i] == db[i], "Do (mutating callback): same values in the same order")
			}
		}
		vCover("ring: Do with a mutating callback")
	case 0:
		vAssert(s.idxA(ra.Next()) == s.idxB(rb.Next()), "Next: same element")
		vAssert(s.idxA(ra.Prev()) == s.idxB(rb.Prev()), "Prev: same element")
	case 1:
		vAssert(s.idxA(ra.Move(n)) == s.idxB(rb.Move(n)), "Move(n): same element")
		vCover("ring: Move")
	case 2:
		// Link with: 0 nil, 1 a separate ring, 2 an element of the same ring
		var sa *Ring[int]
		var sb *ring.Ring
		switch vChoose("s", 3) {
		case 1:
			sn := vChoose("slen", vParam("SN")) + 1
			sa, sb = s.mk(sn, "sv")
			off := vChoose("soff", sn)
			sa, sb = sa.Move(off), sb.Move(off)
		case 2:
			off := vChoose("off", len(s.ha))
			sa, sb = s.ha[off], s.hb[off]
		}
		vAssert(s.idxA(ra.Link(sa)) == s.idxB(rb.Link(sb)), "Link(s): same returned element")
		vCover("ring: Link")
	case 3:
		ua, ub := ra.Unlink(n), rb.Unlink(n)
		vAssert(s.idxA(ua) == s.idxB(ub), "Unlink(n): same returned element")
		vCover("ring: Unlink")
	case 4:
		vAssert(ra.Len() == rb.Len(), "Len: same")
	case 5:
		var da, db []int
		ra.Do(func(v int) { da = append(da, v) })
		rb.Do(func(v any) {
			if v == nil {
				db = append(db, 0)
			} else {
				db = append(db, v.(int))
			}
		})
		vAssert(len(da) == len(db), "Do: same number of calls")
		for i := range da {
			if i < len(db) {
				vAssert(da[i] == db[i], "Do: same values in the same order")
			}
		}
	}
	s.compare("after operation")
}

// VHRingBig: Move and Unlink with counts far beyond the ring's length, both signs - 1023, 1024,
// 1025, 2047, 2048, 2049, 4097, 100003 - and Len / Do on rings of 1..9 and of RB (300)
// elements, so that any reduction of the count (modulo the length, lap counting, threshold-based
// fast paths) is passed; compared with container/ring executed from source.
func VHRingBig() {
	s := &c06r{}
	rn := 1 + vChoose("rlen", 9)
	if vChoose("long", 2) == 1 {
		rn = vParam("RB")
	}
	ra, rb := s.mk(rn, "rv")
	counts := []int{1023, 1024, 1025, 2047, 2048, 2049, 4097, 100003}
	n := counts[vChoose("count", len(counts))]
	if vChoose("neg", 2) == 1 {
		n = -n
	}
	switch vChoose("op", 3) {
	case 0:
		vAssert(s.idxA(ra.Move(n)) == s.idxB(rb.Move(n)), "big counts: Move(n) reaches the same element")
	case 1:
		ua, ub := ra.Unlink(n), rb.Unlink(n)
		vAssert(s.idxA(ua) == s.idxB(ub), "big counts: Unlink(n) returns the same element")
		if ua != nil && ub != nil {
			vAssert(ua.Len() == ub.Len(), "big counts: Unlink(n) removes the same number of elements")
		}
	case 2:
		vAssert(ra.Len() == rb.Len() && ra.Len() == rn, "big ring: Len")
		cnt := 0
		ra.Do(func(int) { cnt++ })
		vAssert(cnt == rn, "big ring: Do visits every element once")
		oa, ob := s.mk(rn+1, "ov")
		vAssert(s.idxA(ra.Link(oa)) == s.idxB(rb.Link(ob)), "big ring: Link returns the same element")
		vAssert(ra.Len() == 2*rn+1 && rb.Len() == 2*rn+1, "big ring: Len after Link")
	}
	if rn <= 9 {
		s.compare("big counts: after the operation")
	} else {
		vAssert(ra.Len() == rb.Len(), "big ring: same Len afterwards")
		pa, pb := ra, rb
		for k := 0; k < ra.Len()+2; k++ {
			vAssert(s.idxA(pa) == s.idxB(pb), "big ring: same Next chain afterwards")
			pa, pb = pa.Next(), pb.Next()
		}
	}
	vCover("ring big done")
}
