package lists

// C16 over long histories on short containers: NCH (600, thorough 6000) operations keep a Queue
// and a Stack between 0 and a small window of values (2, 7, 33 or 100, chosen per path): steady
// Enqueue+Dequeue / Push+Pop with the fill level drifting up and down along a fixed pseudo-random
// sequence, so that anything counted over the life of the container (slabs, chunks, recycled
// nodes, amortised compaction) turns over many times while few values are inside. Values are
// symbolic; every result is compared with a slice model.
func VHQueueStackChurn() {
	n := vParam("NCH")
	win := []int{2, 7, 33, 100}[vChoose("window", 4)]
	var q Queue[int]
	var s Stack[int]
	var mq, ms []int
	x := uint32(88172645)
	next := func(k int) int {
		x ^= x << 13
		x ^= x >> 17
		x ^= x << 5
		return int(x>>3) % k
	}
	for i := 0; i < n; i++ {
		grow := len(mq) == 0 || (len(mq) < win && next(5) < 3)
		if i < win {
			grow = true
		}
		if grow {
			v := vInt("v")
			q.Enqueue(v)
			mq = append(mq, v)
			s.Push(v)
			ms = append(ms, v)
		} else {
			got, ok := q.Dequeue()
			vAssert(ok && got == mq[0], "long history: Dequeue returns the values in the order they were enqueued")
			mq = mq[1:]
			top, ok2 := s.Pop()
			vAssert(ok2 && top == ms[len(ms)-1], "long history: Pop returns the value pushed last")
			ms = ms[:len(ms)-1]
		}
		vAssert(q.Len() == len(mq), "long history: Len is the number of values inside")
		pk, ok := q.Peek()
		vAssert(ok == (len(mq) > 0) && (!ok || pk == mq[0]), "long history: Queue.Peek returns the next value to dequeue")
		tp, ok := s.Peek()
		vAssert(ok == (len(ms) > 0) && (!ok || tp == ms[len(ms)-1]), "long history: Stack.Peek returns the value pushed last")
	}
	for len(mq) > 0 {
		got, ok := q.Dequeue()
		vAssert(ok && got == mq[0], "long history: the final drain returns everything in order")
		mq = mq[1:]
		top, ok2 := s.Pop()
		vAssert(ok2 && top == ms[len(ms)-1], "long history: the final drain of the stack returns everything in reverse order")
		ms = ms[:len(ms)-1]
	}
	_, ok := q.Dequeue()
	_, ok2 := s.Pop()
	vAssert(!ok && !ok2 && q.Len() == 0, "long history: both are empty at the end")
	vCover("queue stack churn done")
}
