package arrays

// Independent arrays used from different goroutines must not influence each other (C08).

func cindepRun(seed, off int) []int {
	var out []int
	a := New2DFilled[int](4, 3, seed+off)
	a.Set(1, 2, 9+off)
	a.Fill(2, 0, 3, 1, 5+off)
	row := a.Row(1)
	row[0] = 7 + off
	span := a.RowSpan(1, 2, 2)
	span[1] = 8 + off
	c := a.Clone()
	c.Set(0, 0, -1)
	j := New2DFromJagged(3, 2, [][]int{{1 + off, 2 + off}, {3 + off}})
	for y := 0; y < 3; y++ {
		for x := 0; x < 4; x++ {
			out = append(out, a.Get(x, y))
		}
	}
	for y := 0; y < 2; y++ {
		for x := 0; x < 3; x++ {
			out = append(out, j.Get(x, y))
		}
	}
	out = append(out, c.Get(0, 0), a.Width(), a.Height())
	return out
}

func VHIndepConc() {
	off := vInt("off")
	vAssume(vAnd(off >= -1000, off <= 1000))
	expA, expB := cindepRun(1, off), cindepRun(2, off)
	var gotA, gotB []int
	vGo(func() { gotA = cindepRun(1, off) })
	vGo(func() { gotB = cindepRun(2, off) })
	vAssert(vWait(), "independent arrays: both goroutines finish")
	vAssert(len(gotA) == len(expA) && len(gotB) == len(expB), "independent arrays used concurrently behave as they do sequentially (length)")
	for i := range expA {
		if i < len(gotA) {
			vAssert(gotA[i] == expA[i], "independent arrays used concurrently behave as they do sequentially")
		}
	}
	for i := range expB {
		if i < len(gotB) {
			vAssert(gotB[i] == expB[i], "independent arrays used concurrently behave as they do sequentially")
		}
	}
	vCover("indep conc done")
}
