package arrays

// C08 at scale: arrays of more than 4096 cells in five shapes (square, one very wide row, one
// very tall column, two rectangles), so that anything Fill, New2DFilled, Clone or the row
// windows do in chunks or by doubling is carried past its thresholds. New2DFilled with a
// symbolic value, a Fill of a rectangle whose corners lie within two cells of the edges (any
// corner order), a write through a Row window and a Clone are each followed by a comparison of
// every cell with a model that knows nothing about the layout.
func VHLarge() {
	shapes := [][2]int{{64, 65}, {3073, 1}, {1, 3073}, {100, 41}, {5000, 3}}
	sh := shapes[vChoose("shape", len(shapes))]
	w, h := sh[0], sh[1]
	v0, v1, v2 := vInt("v0"), vInt("v1"), vInt("v2")
	a := New2DFilled(w, h, v0)
	vAssert(a.Width() == w && a.Height() == h, "large: Width and Height")
	model := make([]int, w*h) // model[y*w+x] - only the harness uses this layout
	for i := range model {
		model[i] = v0
	}
	check := func(b Array2D[int], what string) {
		for y := 0; y < h; y++ {
			for x := 0; x < w; x++ {
				vAssert(b.Get(x, y) == model[y*w+x], what)
			}
		}
	}
	check(a, "large: New2DFilled assigns every cell")
	// a rectangle from near one corner to near the opposite one
	edge := func(name string, n int) (int, int) {
		lo := 2 * vChoose(name+".lo", 2)
		hi := n - 1 - vChoose(name+".hi", 2)
		if lo > n-1 {
			lo = n - 1
		}
		if hi < 0 {
			hi = 0
		}
		return lo, hi
	}
	x1, x2 := edge("x", w)
	y1, y2 := edge("y", h)
	if vChoose("swap", 2) == 1 {
		x1, x2 = x2, x1
	}
	a.Fill(x1, y1, x2, y2, v1)
	lx, hx, ly, hy := x1, x2, y1, y2
	if lx > hx {
		lx, hx = hx, lx
	}
	if ly > hy {
		ly, hy = hy, ly
	}
	for y := ly; y <= hy; y++ {
		for x := lx; x <= hx; x++ {
			model[y*w+x] = v1
		}
	}
	check(a, "large: Fill assigns exactly the inclusive rectangle")
	c := a.Clone()
	row := a.Row(h - 1)
	vAssert(len(row) == w, "large: Row has width elements")
	row[w-1] = v2
	model[(h-1)*w+w-1] = v2
	check(a, "large: a write through a Row window changes exactly that cell")
	model[(h-1)*w+w-1] = c.Get(w-1, h-1)
	vAssert(c.Get(w-1, h-1) != v2 || v2 == v1 || v2 == v0, "large: Clone is independent of the original")
	check(c, "large: Clone holds the contents at the time of cloning")
	vCover("array large done")
}

// VHHistory: NH (400, thorough 4000) operations on one 7x5 array in a fixed pseudo-random
// order - Set, Fill of a rectangle (any corner order), writes through Row and RowSpan windows,
// replacing the array by its Clone, reads outside the bounds - with the cells involved compared
// after every operation and the whole grid every 16; values are symbolic. Anything an Array2D
// might remember between calls (cached rows, dirty flags, lazily materialised fills) gets a long
// life to go stale in.
func VHHistory() {
	n := vParam("NH")
	const w, h = 7, 5
	a := New2D[int](w, h)
	var model [h][w]int
	x := uint32(362436069)
	rnd := func(k int) int {
		x ^= x << 13
		x ^= x >> 17
		x ^= x << 5
		return int(x>>4) % k
	}
	full := func(what string) {
		for y := 0; y < h; y++ {
			for xx := 0; xx < w; xx++ {
				vAssert(a.Get(xx, y) == model[y][xx], what)
			}
		}
	}
	for i := 0; i < n; i++ {
		v := vInt("v")
		switch rnd(7) {
		case 0, 1:
			xx, y := rnd(w), rnd(h)
			a.Set(xx, y, v)
			model[y][xx] = v
			vAssert(a.Get(xx, y) == v, "history: Get returns the value stored last")
		case 2:
			x1, x2, y1, y2 := rnd(w), rnd(w), rnd(h), rnd(h)
			a.Fill(x1, y1, x2, y2, v)
			if x1 > x2 {
				x1, x2 = x2, x1
			}
			if y1 > y2 {
				y1, y2 = y2, y1
			}
			for y := y1; y <= y2; y++ {
				for xx := x1; xx <= x2; xx++ {
					model[y][xx] = v
				}
			}
			vAssert(a.Get(x1, y1) == v && a.Get(x2, y2) == v, "history: Fill assigns the corners")
		case 3:
			y, xx := rnd(h), rnd(w)
			a.Row(y)[xx] = v
			model[y][xx] = v
			vAssert(a.Get(xx, y) == v, "history: a write through Row is seen by Get")
		case 4:
			y, x1 := rnd(h), rnd(w)
			x2 := x1 + rnd(w-x1)
			span := a.RowSpan(x1, x2, y)
			if len(span) > 0 {
				span[len(span)-1] = v
				model[y][x1+len(span)-1] = v
			}
			vAssert(len(span) == x2-x1+1, "history: RowSpan covers the requested cells")
		case 5:
			c := a.Clone()
			a.Set(0, 0, v) // the old array changes, the clone must not
			a = c
		case 6:
			bad := vPanics(func() { a.Get(w+rnd(3), rnd(h)) })
			vAssert(bad, "history: a read outside the bounds panics")
		}
		if i%16 == 15 {
			full("history: every cell holds the value stored last")
		}
	}
	full("history: every cell holds the value stored last (at the end)")
	vCover("array history done")
}
