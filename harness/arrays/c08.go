package arrays

// C08 — Array2D is a grid of independent cells for every width and height.
// The oracle is a list of (x, y, v) assignments; it knows nothing about the layout.

func c08shape() (w, h int) {
	W := vParam("W")
	w = vChoose("w", W+1)
	h = vChoose("h", W+1)
	return
}

func c08in(x, y, w, h int) bool {
	return vAnd(vAnd(0 <= x, x < w), vAnd(0 <= y, y < h))
}

// c08filled returns an array whose cells hold distinct symbolic inputs, and the model table.
func c08filled(w, h int) (Array2D[int], [][]int) {
	a := New2D[int](w, h)
	model := make([][]int, w)
	for x := 0; x < w; x++ {
		model[x] = make([]int, h)
		for y := 0; y < h; y++ {
			v := vInt("cell")
			model[x][y] = v
			a.Set(x, y, v)
		}
	}
	return a, model
}

func VHCell() {
	w, h := c08shape()
	a := New2D[int](w, h)
	vAssert(a.Width() == w, "Width")
	vAssert(a.Height() == h, "Height")
	type asg struct {
		x, y, v int
		in    bool
	}
	var sets []asg
	for k := 0; k < 2; k++ {
		x, y, v := vInt("x"), vInt("y"), vInt("v")
		in := c08in(x, y, w, h)
		p := vPanics(func() { a.Set(x, y, v) })
		vAssert(p == !in, "Set panics exactly for coordinates outside the bounds")
		sets = append(sets, asg{x, y, v, in})
	}
	i, j := vInt("i"), vInt("j")
	pin := c08in(i, j, w, h)
	got := 0
	p := vPanics(func() { got = a.Get(i, j) })
	vAssert(p == !pin, "Get panics exactly for coordinates outside the bounds")
	exp := 0
	for _, s := range sets {
		exp = vIte(vAnd(s.in, vAnd(s.x == i, s.y == j)), s.v, exp)
	}
	vAssert(vImplies(pin, got == exp), "Get returns the last value stored in that cell (zero if none), whatever was stored elsewhere")
	if w >= 2 && h >= 2 && w != h {
		vCover("cell: rectangular shape")
	}
}

func VHRow() {
	w, h := c08shape()
	a, model := c08filled(w, h)
	y := vInt("y")
	yin := vAnd(0 <= y, y < h)
	var row []int
	p := vPanics(func() { row = a.Row(y) })
	vAssert(p == !yin, "Row panics exactly for y outside the bounds")
	if p {
		return
	}
	vAssert(len(row) == w, "Row has width elements")
	for x := 0; x < len(row) && x < w; x++ {
		for yy := 0; yy < h; yy++ {
			vAssert(vImplies(y == yy, row[x] == model[x][yy]), "Row(y)[x] is cell (x,y)")
		}
	}
	// live window: writes go both ways and touch nothing else
	if w > 0 && len(row) == w {
		x := vRange("wx", 0, w-1)
		nv := vInt("nv")
		row[x] = nv
		vAssert(a.Get(x, y) == nv, "writing Row(y)[x] changes cell (x,y)")
		i, j := vRange("pi", 0, w-1), vRange("pj", 0, h-1)
		old := 0
		for xx := 0; xx < w; xx++ {
			for yy := 0; yy < h; yy++ {
				old = vIte(vAnd(i == xx, j == yy), model[xx][yy], old)
			}
		}
		vAssert(vImplies(vNot(vAnd(i == x, j == y)), a.Get(i, j) == old), "writing Row(y)[x] changes no other cell")
		nv2 := vInt("nv2")
		a.Set(x, y, nv2)
		vAssert(row[x] == nv2, "Set(x,y) is visible through Row(y)")
		vCover("row: window written")
	}
}

func VHRowSpan() {
	w, h := c08shape()
	a, model := c08filled(w, h)
	x1, x2, y := vInt("x1"), vInt("x2"), vInt("y")
	vAssume(x1 <= x2)
	in := vAnd(vAnd(0 <= x1, x2 < w), vAnd(0 <= y, y < h))
	var span []int
	p := vPanics(func() { span = a.RowSpan(x1, x2, y) })
	vAssert(p == !in, "RowSpan panics exactly for spans outside the bounds")
	if p {
		return
	}
	vAssert(len(span) == x2-x1+1, "RowSpan(x1,x2,y) has x2-x1+1 elements")
	for k := 0; k < len(span); k++ {
		exp := 0
		for xx := 0; xx < w; xx++ {
			for yy := 0; yy < h; yy++ {
				exp = vIte(vAnd(x1+k == xx, y == yy), model[xx][yy], exp)
			}
		}
		vAssert(span[k] == exp, "RowSpan(x1,x2,y)[k] is cell (x1+k,y)")
	}
	if len(span) > 0 {
		nv := vInt("nv")
		k := vRange("k", 0, len(span)-1)
		span[k] = nv
		vAssert(a.Get(x1+k, y) == nv, "writing RowSpan[k] changes cell (x1+k,y)")
		nv2 := vInt("nv2")
		a.Set(x1+k, y, nv2)
		vAssert(span[k] == nv2, "Set is visible through RowSpan")
	}
	if len(span) >= 2 && w != h {
		vCover("rowspan: length >= 2 on a rectangular shape")
	}
}

func VHFill() {
	w, h := c08shape()
	a, model := c08filled(w, h)
	x1, y1, x2, y2, v := vInt("x1"), vInt("y1"), vInt("x2"), vInt("y2"), vInt("v")
	in := vAnd(c08in(x1, y1, w, h), c08in(x2, y2, w, h))
	p := vPanics(func() { a.Fill(x1, y1, x2, y2, v) })
	vAssert(p == !in, "Fill panics exactly for corners outside the bounds")
	if w == 0 || h == 0 {
		return
	}
	i, j := vRange("pi", 0, w-1), vRange("pj", 0, h-1)
	old := 0
	for xx := 0; xx < w; xx++ {
		for yy := 0; yy < h; yy++ {
			old = vIte(vAnd(i == xx, j == yy), model[xx][yy], old)
		}
	}
	got := a.Get(i, j)
	if p {
		vAssert(got == old, "a panicking Fill leaves the array unchanged")
		return
	}
	lox, hix := vIte(x1 < x2, x1, x2), vIte(x1 < x2, x2, x1)
	loy, hiy := vIte(y1 < y2, y1, y2), vIte(y1 < y2, y2, y1)
	inside := vAnd(vAnd(lox <= i, i <= hix), vAnd(loy <= j, j <= hiy))
	vAssert(got == vIte(inside, v, old), "Fill assigns exactly the inclusive rectangle, whichever corners are given")
	if w >= 2 && h >= 2 && w != h {
		vCover("fill: rectangular shape")
	}
}

func VHMisc() {
	w, h := c08shape()
	a, model := c08filled(w, h)
	// Clone is independent
	c := a.Clone()
	vAssert(c.Width() == w, "Clone keeps width")
	vAssert(c.Height() == h, "Clone keeps height")
	nv := vInt("nv")
	for x := 0; x < w; x++ {
		for y := 0; y < h; y++ {
			vAssert(c.Get(x, y) == model[x][y], "Clone has the same cells")
			c.Set(x, y, nv)
		}
	}
	for x := 0; x < w; x++ {
		for y := 0; y < h; y++ {
			vAssert(a.Get(x, y) == model[x][y], "writing the clone leaves the original unchanged")
		}
	}
	_ = a.String()
	// New2DFilled
	fv := vInt("fv")
	f := New2DFilled(w, h, fv)
	vAssert(f.Width() == w, "New2DFilled width")
	vAssert(f.Height() == h, "New2DFilled height")
	for x := 0; x < w; x++ {
		for y := 0; y < h; y++ {
			vAssert(f.Get(x, y) == fv, "New2DFilled fills every cell")
		}
	}
	vCover("misc end")
}

func VHJagged() {
	w, h := c08shape()
	rows := vChoose("rows", h+3)
	jag := make([][]int, rows)
	for y := range jag {
		l := vChoose("rowlen", w+3)
		jag[y] = make([]int, l)
		for x := range jag[y] {
			jag[y][x] = vInt("j")
		}
	}
	var a Array2D[int]
	p := vPanics(func() { a = New2DFromJagged(w, h, jag) })
	vAssert(!p, "New2DFromJagged ignores values outside the bounds instead of panicking")
	if p {
		return
	}
	vAssert(a.Width() == w, "New2DFromJagged width")
	vAssert(a.Height() == h, "New2DFromJagged height")
	for x := 0; x < w; x++ {
		for y := 0; y < h; y++ {
			exp := 0
			if y < len(jag) && x < len(jag[y]) {
				exp = jag[y][x]
			}
			vAssert(a.Get(x, y) == exp, "New2DFromJagged: cell (x,y) is jagged[y][x] when present, else zero")
		}
	}
	if rows > h {
		vCover("jagged: more rows than height")
	}
	if rows < h {
		vCover("jagged: fewer rows than height")
	}
}

// VHString: String() lists exactly the cells, row by row (concrete contents: the text is then an
// ordinary string for the engine as well; the punctuation is not fixed by the property, the
// sequence of values and the number of rows are).
func VHString() {
	w, h := 1+vChoose("w", 3), 1+vChoose("h", 3)
	a := New2D[int](w, h)
	for y := 0; y < h; y++ {
		for x := 0; x < w; x++ {
			a.Set(x, y, 10*y+x-5)
		}
	}
	s := a.String()
	got := vParseInts(s)
	vAssert(len(got) == w*h, "String lists every cell exactly once")
	k := 0
	for y := 0; y < h; y++ {
		for x := 0; x < w; x++ {
			if k < len(got) {
				vAssert(got[k] == 10*y+x-5, "String lists the cells row by row, left to right")
			}
			k++
		}
	}
	vAssert(vCountByte(s, '[') == h+1 && vCountByte(s, ']') == h+1, "String brackets the array and each of its rows")
	e := New2D[int](0, 0)
	vAssert(len(vParseInts(e.String())) == 0, "String of an empty array lists no cell")
	if w >= 2 && h >= 2 && w != h {
		vCover("string: non-square array")
	}
}
