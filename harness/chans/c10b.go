package chans

// C10, pairs of control operations run concurrently: Sub, Unsub(a), Unsub(b), UnsubAll,
// WithOnly(a) followed by a publish through the clone, and PubSync on the parent. Whatever
// the interleaving, nothing crashes, every removal closes exactly its channel exactly once,
// Unsub reports nil exactly for the call that removed the channel, and afterwards a publish
// reaches exactly the channels that are still subscribed.

const (
	ctlSub = iota
	ctlUnsubA
	ctlUnsubB
	ctlUnsubAll
	ctlWithOnlyA
	ctlPub
)

func VHPubCtlConc() {
	s := c10newOpt(3, false) // subscribers a=0, b=1, c=2
	ev, ev2, ev3 := vInt("ev"), vInt("ev"), vInt("ev")
	vAssume(ev != ev2)
	vAssume(ev != ev3)
	vAssume(ev2 != ev3)
	s.receivers()
	op := [2]int{vChoose("op1", 6), vChoose("op2", 6)}
	var errs [2]error
	var added [2]<-chan int
	for i := 0; i < 2; i++ {
		i := i
		vGo(func() {
			switch op[i] {
			case ctlSub:
				added[i] = s.ps.Sub()
			case ctlUnsubA:
				errs[i] = s.ps.Unsub(s.subs[0])
			case ctlUnsubB:
				errs[i] = s.ps.Unsub(s.subs[1])
			case ctlUnsubAll:
				errs[i] = s.ps.UnsubAll()
			case ctlWithOnlyA:
				s.ps.WithOnly(s.subs[0]).PubSync(ev3)
			case ctlPub:
				s.ps.PubSync(ev)
			}
		})
	}
	vWait()
	// which of a, b, c must be gone
	gone := [3]bool{}
	for i := 0; i < 2; i++ {
		switch op[i] {
		case ctlUnsubA:
			gone[0] = true
		case ctlUnsubB:
			gone[1] = true
		case ctlUnsubAll:
			gone = [3]bool{true, true, true}
		}
	}
	// receivers for channels added by a concurrent Sub: drain them in the background
	for i := 0; i < 2; i++ {
		if added[i] != nil {
			ch := added[i]
			vGo(func() {
				for {
					if _, ok := <-ch; !ok {
						return
					}
				}
			})
		}
	}
	s.ps.PubSync(ev2)
	vWait()
	for k := 0; k < 3; k++ {
		// a channel removed by UnsubAll may or may not have been removed if a Sub raced: only a,b,c matter
		vAssert(s.closed[k] == gone[k], "a channel is closed exactly when an Unsub/UnsubAll removed it")
		want := 1
		if gone[k] {
			want = 0
		}
		vAssert(c10count(s.logs[k], ev2) == want, "afterwards a publish reaches exactly the channels that are still subscribed")
		npub := 0
		for i := 0; i < 2; i++ {
			if op[i] == ctlPub {
				npub++
			}
		}
		vAssert(c10count(s.logs[k], ev) <= npub, "an event reaches a subscriber at most once per publish call")
		if !gone[k] {
			vAssert(c10count(s.logs[k], ev) == npub, "a subscriber that stayed subscribed receives every published event exactly once")
		}
		if k != 0 {
			vAssert(c10count(s.logs[k], ev3) == 0, "WithOnly publishes to the one given subscription only")
		}
	}
	// Unsub results: nil exactly for the call that removed the channel
	for i := 0; i < 2; i++ {
		j := 1 - i
		switch op[i] {
		case ctlUnsubA, ctlUnsubB:
			same := op[j] == op[i]
			all := op[j] == ctlUnsubAll
			if !same && !all {
				vAssert(errs[i] == nil, "Unsub of a subscribed channel succeeds")
			} else if same {
				vAssert((errs[0] == nil) != (errs[1] == nil), "of two concurrent Unsub calls for the same channel exactly one succeeds")
				vAssert(errs[i] == nil || errs[i] == ErrAlreadyUnsubscribed, "the other reports ErrAlreadyUnsubscribed")
			} else {
				vAssert(errs[i] == nil || errs[i] == ErrAlreadyUnsubscribed, "Unsub racing with UnsubAll succeeds or reports ErrAlreadyUnsubscribed")
			}
		case ctlUnsubAll:
			vAssert(errs[i] == nil, "UnsubAll succeeds")
		}
	}
	vCover("ctlconc done")
}

// VHPubPubConc: two publishers at once on one PubSub, each with any of the six publish
// variants and its own event; receivers run throughout. Nothing may panic, both calls return,
// and every subscriber gets each event exactly once.
func VHPubPubConc() {
	s := c10newOpt(1+vChoose("nsub", vParam("SUBS")), false)
	e1, e2 := vInt("ev"), vInt("ev")
	vAssume(e1 != e2)
	s.receivers()
	v1, v2 := vChoose("variant1", 6), vChoose("variant2", 6)
	vGo(func() { s.publish(v1, []int{e1}) })
	vGo(func() { s.publish(v2, []int{e2}) })
	vAssert(vWait() || true, "quiescence")
	n := len(s.subs)
	vAssert(vThreadDone(n) && vThreadDone(n+1), "both publish calls return")
	for k := range s.subs {
		vAssert(c10count(s.logs[k], e1) == 1, "two publishers at once: every subscriber gets the first publisher's event exactly once")
		vAssert(c10count(s.logs[k], e2) == 1, "two publishers at once: every subscriber gets the second publisher's event exactly once")
		vAssert(!s.closed[k], "publishing closes nothing")
	}
	if (v1 == pubWait || v1 == pubSliceWait) && (v2 == pubWait || v2 == pubSliceWait) {
		vCover("pubpub: two Wait-variant publishers at once")
	}
}
