// Engine self-test (tools/selftest_engine.sh): standard-library primitives the repository does not
// use today but a change might - sync.Cond, time.AfterFunc/Ticker/Reset, context, sync.Once*,
// sync.Map - run through the engine and, by translator validation, natively. Not a property check.
package chans

import (
	"context"
	"sync"
	"sync/atomic"
	"time"
)

func VHDevCond() {
	var mu sync.Mutex
	c := sync.NewCond(&mu)
	ready := false
	got := false
	vGo(func() {
		mu.Lock()
		for !ready {
			c.Wait()
		}
		got = true
		mu.Unlock()
	})
	vGo(func() {
		mu.Lock()
		ready = true
		mu.Unlock()
		c.Broadcast()
	})
	vAssert(vWait(), "cond: both finish")
	vAssert(got, "cond: waiter saw ready")
	vCover("cond done")
}

func VHDevAfterFunc() {
	var n atomic.Int32
	t := time.AfterFunc(time.Second, func() { n.Add(1) })
	stopped := t.Stop()
	vWait()
	if stopped {
		vAssert(n.Load() == 0, "afterfunc: stopped timer never runs")
	} else {
		vAssert(n.Load() == 1, "afterfunc: fired exactly once")
	}
	vCover("afterfunc done")
}

func VHDevContext() {
	ctx, cancel := context.WithCancel(context.Background())
	done := false
	vGo(func() {
		<-ctx.Done()
		done = true
	})
	vGo(func() { cancel() })
	vAssert(vWait(), "context: both finish")
	vAssert(done && ctx.Err() == context.Canceled, "context: cancelled")
	vCover("context done")
}

func VHDevTimeout() {
	ctx, cancel := context.WithTimeout(context.Background(), time.Second)
	defer cancel()
	ch := make(chan int)
	ok := SendContext(ctx, ch, 1)
	vAssert(!ok, "timeout: nobody receives, so the send gives up")
	vCover("timeout done")
}

func VHDevOnce() {
	var o sync.Once
	n := 0
	for i := 0; i < 2; i++ {
		vGo(func() { o.Do(func() { n++ }) })
	}
	vWait()
	vAssert(n == 1, "once")
	f := sync.OnceValue(func() int { n++; return n })
	vAssert(f() == 2 && f() == 2, "oncevalue")
	var m sync.Map
	m.Store(1, 2)
	v, ok := m.Load(1)
	vAssert(ok && v.(int) == 2, "sync.Map")
	vCover("once done")
}

func VHDevTicker() {
	tk := time.NewTicker(time.Millisecond)
	<-tk.C
	tk.Stop()
	tm := time.NewTimer(time.Hour)
	tm.Reset(time.Millisecond)
	<-tm.C
	time.Sleep(time.Millisecond)
	vCover("ticker done")
}

type devBox struct {
	mu sync.Mutex
	n  int
}

func (b devBox) get() int { b.mu.Lock(); defer b.mu.Unlock(); return b.n }

func VHDevMutexCopy() {
	var b devBox
	b.mu.Lock()
	done := false
	vGo(func() { _ = b.get(); done = true }) // copies a locked mutex: the copy is locked for good
	vWait()
	vAssert(!done, "a copy of a locked mutex stays locked")
	b.mu.Unlock()
	c := b // copy of an unlocked mutex works
	c.mu.Lock()
	c.mu.Unlock()
	vCover("mutex copy done")
}

// VHDevRepanic: a deferred call that recovers and panics again (or panics for the first time
// while another panic unwinds) replaces the panic in flight; outer deferred calls still run.
func VHDevRepanic() {
	order := ""
	got := any(nil)
	func() {
		defer func() { got = recover() }()
		defer func() { order += "outer;" }()
		func() {
			defer func() {
				if p := recover(); p != nil {
					order += "inner;"
					panic("again")
				}
			}()
			panic("first")
		}()
		order += "unreachable;"
	}()
	vAssert(order == "inner;outer;", "repanic: deferred calls run innermost first, code after the call is skipped")
	vAssert(got == any("again"), "repanic: the second panic replaces the first")
	var arr []int
	got = nil
	func() {
		defer func() { got = recover() }()
		defer func() { _ = arr[3] }() // runtime panic while "x" unwinds
		panic("x")
	}()
	_, isStr := got.(string)
	vAssert(got != nil && !isStr, "repanic: a runtime panic in a deferred call replaces the panic in flight")
	e, isErr := got.(error)
	vAssert(isErr && len(e.Error()) > 15 && e.Error()[:15] == "runtime error: ", "repanic: run-time panics carry a runtime.Error")
	vCover("repanic done")
}

// VHDevClock: time.Now is an arbitrary non-decreasing clock; Before/After/Sub/Add run from source.
func VHDevClock() {
	t0 := time.Now()
	t1 := time.Now()
	vAssert(!t1.Before(t0) && t1.Sub(t0) >= 0, "clock: readings never go back")
	deadline := t0.Add(time.Second)
	vAssert(deadline.After(t0) && deadline.Sub(t0) == time.Second, "clock: Add and Sub agree")
	n := 0
	for time.Now().Before(deadline) && n < 3 {
		n++
	}
	if n == 0 {
		vCover("clock: deadline already passed at the first look")
	}
	if n == 3 {
		vCover("clock: deadline not reached after three looks")
	}
	vAssert(time.Since(t0) >= 0, "clock: Since is not negative")
}
