package chans

import "time"

// short enough for a native replay, long against the engine's clock tick of 20ms
const c19mTimeout = 50 * time.Millisecond

// C19 with many timed calls in flight: NW (70, thorough 300) goroutines are parked in
// RecvTimeout / SendTimeout on channels nobody serves (positive timeouts, so each holds a timer
// or whatever stands in for one) while one more timed call is made on a channel that is ready.
// That call must take / hand over exactly one value: a receive returns the head of the queue and
// leaves the rest, a send adds exactly its value. Afterwards every parked call times out, returns
// false and has consumed or sent nothing. One fixed schedule (the parked calls first, the timers
// fire only once everything else is blocked; the clock is concrete and advances 20ms per reading).
func VHTimedMany() {
	nw := vParam("NW")
	kind := vChoose("parked", 2)
	idle := make(chan int)    // never served
	full := make(chan int, 1) // never drained
	full <- -1
	ready := make(chan struct{}, nw)
	results := make([]bool, nw)
	for i := 0; i < nw; i++ {
		i := i
		vGo(func() {
			ready <- struct{}{} // (under the fixed schedule a goroutine runs on until it parks before the main one continues)
			if kind == 0 || i%2 == 0 {
				v, ok := RecvTimeout(idle, c19mTimeout)
				results[i] = ok || v != 0
			} else {
				results[i] = SendTimeout(full, 1000+i, c19mTimeout)
			}
		})
	}
	// The one more call is made by the goroutine started last: under the engine's fixed schedule
	// (lowest id first, each goroutine runs on until it parks) every other call is parked by then;
	// natively the tokens make sure they have at least been started.
	vGo(func() {
		for i := 0; i < nw; i++ {
			<-ready
		}
		time.Sleep(time.Millisecond)
		a, b, c := vInt("q"), vInt("q"), vInt("q")
		vAssume(vAnd(a != b, vAnd(b != c, a != c)))
		ch := make(chan int, 4)
		ch <- a
		ch <- b
		if vChoose("main", 2) == 0 {
			v, ok := RecvTimeout(ch, c19mTimeout)
			if ok {
				vAssert(v == a, "many timed calls: RecvTimeout returns the head of the queue")
				vAssert(len(ch) == 1, "many timed calls: RecvTimeout consumes exactly one value")
				vAssert(<-ch == b, "many timed calls: the rest of the queue is untouched")
				vCover("timed many: received")
			} else {
				vAssert(v == 0 && len(ch) == 2, "many timed calls: a RecvTimeout that reports false has consumed nothing")
			}
		} else {
			if SendTimeout(ch, c, c19mTimeout) {
				vAssert(len(ch) == 3, "many timed calls: SendTimeout adds exactly one value")
				vAssert(<-ch == a && <-ch == b && <-ch == c, "many timed calls: the queue holds the old values and the new one, in order")
				vCover("timed many: sent")
			} else {
				vAssert(len(ch) == 2, "many timed calls: a SendTimeout that reports false has sent nothing")
			}
		}
	})
	vAssert(vWait(), "many timed calls: every parked call returns once its timeout has passed")
	for i := range results {
		vAssert(!results[i], "many timed calls: a call that timed out reports false")
	}
	vAssert(len(full) == 1 && <-full == -1, "many timed calls: a send that timed out has sent nothing")
	vCover("timed many done")
}

// VHTimedHistory: NH (300, thorough 3000) timed calls one after the other in one goroutine -
// receives that find a value, receives that time out, sends that fit, sends that time out, calls
// without a limit that are ready at once, in a fixed pseudo-random order - so that anything the
// helpers keep between calls (pooled or recycled timers, counters) is reused many times; a
// recycled timer with a stale tick would make a later call give up at once although its value is
// ready. Every call's result and the channel contents are checked. (One fixed schedule: a timer
// fires only when nothing else can run.)
func VHTimedHistory() {
	n := vParam("NH")
	ch := make(chan int, 2)
	var model []int
	x := uint32(123456789)
	next := 1
	for i := 0; i < n; i++ {
		x ^= x << 13
		x ^= x >> 17
		x ^= x << 5
		switch int(x>>5) % 6 {
		case 0, 1: // timed send
			ok := SendTimeout(ch, next, c19mTimeout)
			vAssert(ok == (len(model) < 2), "timed history: SendTimeout succeeds exactly when there is room")
			if ok {
				model = append(model, next)
			}
			next++
		case 2, 3: // timed receive
			v, ok := RecvTimeout(ch, c19mTimeout)
			vAssert(ok == (len(model) > 0), "timed history: RecvTimeout succeeds exactly when a value is queued")
			if ok {
				vAssert(v == model[0], "timed history: RecvTimeout returns the head of the queue")
				model = model[1:]
			} else {
				vAssert(v == 0, "timed history: a RecvTimeout that gives up returns the zero value")
			}
		case 4: // no limit, ready at once
			if len(model) < 2 {
				vAssert(SendTimeout(ch, next, 0), "timed history: an unlimited send with room succeeds")
				model = append(model, next)
				next++
			}
		case 5:
			if len(model) > 0 {
				v, ok := RecvTimeout(ch, -1)
				vAssert(ok && v == model[0], "timed history: an unlimited receive of a queued value succeeds")
				model = model[1:]
			}
		}
		vAssert(len(ch) == len(model), "timed history: the channel holds exactly what the model holds")
	}
	vCover("timed history done")
}

type c19big struct {
	a, b, c, d [4]int64
	s          string
}

// c19typed: the non-blocking bulk receivers and one timed round trip for an element type E.
func c19typed[E comparable](mk func(i int) E, what string) {
	c := 1 + vChoose(what+".cap", 3)
	f := vChoose(what+".fill", c+1)
	ch := make(chan E, c)
	for i := 0; i < f; i++ {
		ch <- mk(i + 1)
	}
	limit := vChoose(what+".limit", 5) - 1
	want := limit
	if want < 0 {
		want = 0
	}
	if want > f {
		want = f
	}
	if vChoose(what+".full", 2) == 0 {
		got := RecvQueued(ch, limit)
		vAssert(len(got) == want, what+": RecvQueued returns exactly the values already queued, up to the limit")
		for i := range got {
			vAssert(got[i] == mk(i+1), what+": RecvQueued returns the values in FIFO order")
		}
	} else {
		buf := make([]E, want)
		n := RecvQueuedFull(ch, buf)
		vAssert(n == want, what+": RecvQueuedFull fills the buffer with the values already queued")
		for i := 0; i < n; i++ {
			vAssert(buf[i] == mk(i+1), what+": RecvQueuedFull returns the values in FIFO order")
		}
	}
	vAssert(len(ch) == f-want, what+": the rest stays in the channel")
	if len(ch) < c {
		vAssert(SendTimeout(ch, mk(9), 0), what+": an unlimited send with room succeeds")
		for len(ch) > 1 {
			<-ch
		}
		v, ok := RecvTimeout(ch, -1)
		vAssert(ok && v == mk(9), what+": the value sent last comes out last")
	}
}

// VHElemTypes: the helpers instantiated for element types of size zero (struct{}, [0]int), one
// byte, a string, a pointer and a 136-byte struct - a generic helper may size or
// preallocate by the element type.
func VHElemTypes() {
	x := vInt("x")
	switch vChoose("type", 6) {
	case 0:
		c19typed(func(i int) struct{} { return struct{}{} }, "struct{}")
	case 1:
		c19typed(func(i int) [0]int { return [0]int{} }, "[0]int")
	case 2:
		c19typed(func(i int) uint8 { return uint8(i) }, "uint8")
	case 3:
		c19typed(func(i int) string { return "v" + string(rune('0'+i)) }, "string")
	case 4:
		cells := make([]int, 12)
		c19typed(func(i int) *int { return &cells[i] }, "*int")
	case 5:
		c19typed(func(i int) c19big { return c19big{a: [4]int64{int64(i), int64(x)}, s: "b"} }, "big struct")
	}
	vCover("chan elem types done")
}
