package chans

// C10 with many subscribers: NSUBS (40, thorough 150) buffered subscriptions on one PubSub, so
// that anything the subscription list does above a size threshold (index maps, swap-removal,
// batching) is reached. No goroutines are needed: every channel has room for everything that is
// published. Events are symbolic and pairwise distinct; which subscriptions are removed (the
// newest, the oldest, one of four in the middle) is chosen per path. After every stage each
// channel must hold exactly the events published while it was subscribed, in order, and be
// closed exactly if it was removed; removing a channel twice - also after a new subscription
// took its place - reports ErrAlreadyUnsubscribed and harms nobody.
func VHPubMany() {
	n := vParam("NSUBS")
	ps := &PubSub[int]{}
	var subs []<-chan int
	var want [][]int
	var gone []bool
	add := func() {
		subs = append(subs, ps.SubBuf(8))
		want = append(want, nil)
		gone = append(gone, false)
	}
	for i := 0; i < n; i++ {
		add()
	}
	evs := make([]int, 5)
	for i := range evs {
		evs[i] = vInt("ev")
		for j := 0; j < i; j++ {
			vAssume(evs[i] != evs[j])
		}
	}
	pub := func(e int, variant int) {
		switch variant {
		case 0:
			ps.PubSync(e)
		case 1:
			ps.PubSliceSync([]int{e})
		}
		for i := range subs {
			if !gone[i] {
				want[i] = append(want[i], e)
			}
		}
	}
	unsub := func(i int) {
		err := ps.Unsub(subs[i])
		if gone[i] {
			vAssert(err == ErrAlreadyUnsubscribed, "many subscribers: removing a channel a second time reports ErrAlreadyUnsubscribed")
		} else {
			vAssert(err == nil, "many subscribers: removing a subscribed channel succeeds")
		}
		gone[i] = true
	}
	variant := vChoose("variant", 2)
	pub(evs[0], variant)
	unsub(n - 1) // the newest
	unsub(n - 1)
	pub(evs[1], variant)
	add() // a new subscription takes the place at the end
	unsub(n - 1)
	mid := n/2 + vChoose("mid", 4)
	unsub(mid)
	unsub(0) // the oldest
	unsub(mid)
	pub(evs[2], variant)
	add()
	unsub(len(subs) - 2)
	pub(evs[3], variant)
	// WithOnly: one of the remaining ones, and one that is gone
	k := 1 + vChoose("only", 3)
	ps.WithOnly(subs[k]).PubSync(evs[4])
	want[k] = append(want[k], evs[4])
	ps.WithOnly(subs[0]).PubSync(evs[4])
	check := func(what string) {
		for i, ch := range subs {
			for _, e := range want[i] {
				select {
				case got, ok := <-ch:
					vAssert(ok && got == e, what+": every channel holds exactly the events published while it was subscribed, in order")
				default:
					vAssert(false, what+": an event published while the channel was subscribed is missing")
				}
			}
			want[i] = nil
			select {
			case _, ok := <-ch:
				vAssert(!ok, what+": nothing else was delivered")
				vAssert(gone[i], what+": only removed channels are closed")
			default:
				vAssert(!gone[i], what+": a removed channel is closed")
			}
		}
	}
	check("many subscribers")
	vAssert(ps.UnsubAll() == nil, "many subscribers: UnsubAll succeeds")
	for i := range gone {
		gone[i] = true
	}
	check("many subscribers, after UnsubAll")
	for i := 0; i < n; i += 7 {
		vAssert(ps.Unsub(subs[i]) == ErrAlreadyUnsubscribed, "many subscribers: after UnsubAll every channel is unknown")
	}
	add()
	pub(evs[0], variant)
	check("many subscribers, a fresh subscription after UnsubAll")
	vCover("pub many done")
}

// VHPubParked: NPUB (1100, thorough 2000) asynchronous publishes to one subscriber that is not
// receiving yet, so that more than a thousand hand-offs are parked at once (goroutine budgets,
// semaphores, pooled senders); a second subscriber with a large buffer takes its copies at once.
// Pub / PubSlice must return without waiting; then the slow subscriber receives everything:
// every event exactly once on both channels; afterwards Unsub and Sub still work. One fixed
// schedule.
func VHPubParked() {
	n := vParam("NPUB")
	ps := &PubSub[int]{}
	slow := ps.Sub()
	fast := ps.SubBuf(n + 8)
	variant := vChoose("variant", 2)
	for i := 0; i < n; {
		if variant == 1 && i+3 <= n {
			ps.PubSlice([]int{i, i + 1, i + 2})
			i += 3
		} else {
			ps.Pub(i)
			i++
		}
	}
	seen := make([]int, n)
	for i := 0; i < n; i++ {
		v := <-slow
		if v >= 0 && v < n {
			seen[v]++
		} else {
			vAssert(false, "parked publishes: only published events arrive")
		}
	}
	vAssert(vWait(), "parked publishes: every hand-off finishes once the subscriber receives")
	for i := range seen {
		vAssert(seen[i] == 1, "parked publishes: the slow subscriber gets every event exactly once")
	}
	select {
	case <-slow:
		vAssert(false, "parked publishes: nothing is delivered twice")
	default:
	}
	vAssert(len(fast) == n, "parked publishes: the buffered subscriber has every event")
	got := make([]int, n)
	for i := 0; i < n; i++ {
		v := <-fast
		if v >= 0 && v < n {
			got[v]++
		}
	}
	for i := range got {
		vAssert(got[i] == 1, "parked publishes: the buffered subscriber gets every event exactly once")
	}
	vAssert(ps.Unsub(slow) == nil, "parked publishes: Unsub works afterwards")
	extra := ps.SubBuf(1)
	ps.PubSync(7)
	vAssert(<-extra == 7 && <-fast == 7, "parked publishes: Sub and PubSync work afterwards")
	vCover("pub parked done")
}
