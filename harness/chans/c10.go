package chans

import (
	"sync"
	"time"
)

// C10 — PubSub delivers every event exactly once to every subscriber.

const (
	pubPub = iota
	pubSlice
	pubWait
	pubSliceWait
	pubSync
	pubSliceSync
)

type c10ps struct {
	ps       *PubSub[int]
	subs     []<-chan int
	logs     [][]int
	closed   []bool
	timeouts []int // events passed to OnPubTimeout
	mu       sync.Mutex
	slow     bool // receivers yield before every receive
}

func c10new(nsub int) *c10ps { return c10newOpt(nsub, true) }

// c10newOpt: with full == false the configuration is the plain one (unbuffered, no timeout)
func c10newOpt(nsub int, full bool) *c10ps {
	s := &c10ps{ps: &PubSub[int]{}}
	if !full {
		s.logs = make([][]int, nsub)
		s.closed = make([]bool, nsub)
		for i := 0; i < nsub; i++ {
			s.subs = append(s.subs, s.ps.Sub())
		}
		return s
	}
	s.ps.DefaultBuffer = vChoose("buffer", 2)
	s.ps.PubTimeoutAfter = time.Duration(vInt64("timeoutAfter"))
	s.ps.OnPubTimeout = func(ev int) {
		s.mu.Lock()
		s.timeouts = append(s.timeouts, ev)
		s.mu.Unlock()
	}
	s.logs = make([][]int, nsub)
	s.closed = make([]bool, nsub)
	for i := 0; i < nsub; i++ {
		if vChoose("subbuf", 2) == 1 {
			s.subs = append(s.subs, s.ps.SubBuf(1))
		} else {
			s.subs = append(s.subs, s.ps.Sub())
		}
	}
	return s
}

// receivers: one goroutine per subscriber, receiving until its channel is closed
func (s *c10ps) receivers() {
	for i := range s.subs {
		i := i
		vGo(func() {
			for {
				if s.slow {
					// a busy subscriber: it is not yet waiting on its channel when the publisher comes
					// (a non-blocking send attempt sees nobody and the timer path is taken)
					vYield()
				}
				v, ok := <-s.subs[i]
				if !ok {
					break
				}
				s.logs[i] = append(s.logs[i], v)
			}
			s.closed[i] = true
		})
	}
}

func (s *c10ps) publish(variant int, evs []int) {
	switch variant {
	case pubPub:
		for _, e := range evs {
			s.ps.Pub(e)
		}
	case pubSlice:
		s.ps.PubSlice(evs)
	case pubWait:
		for _, e := range evs {
			s.ps.PubWait(e)
		}
	case pubSliceWait:
		s.ps.PubSliceWait(evs)
	case pubSync:
		for _, e := range evs {
			s.ps.PubSync(e)
		}
	case pubSliceSync:
		s.ps.PubSliceSync(evs)
	}
}

func c10count(xs []int, v int) int {
	n := 0
	for _, x := range xs {
		if x == v {
			n++
		}
	}
	return n
}

func c10events() []int {
	n := vParam("EV")
	evs := make([]int, n)
	for i := range evs {
		evs[i] = vInt("ev")
		for j := 0; j < i; j++ {
			vAssume(evs[i] != evs[j])
		}
	}
	return evs
}

// VHPubDeliver: stable subscriptions, receivers draining.
func VHPubDeliver() {
	nsub := vChoose("nsub", vParam("SUBS")+1)
	var s *c10ps
	if vParam("PLAIN") == 1 {
		s = c10newOpt(nsub, false)
	} else {
		s = c10new(nsub)
	}
	evs := c10events()
	variant := vChoose("variant", 6)
	s.slow = vParam("SLOW") == 1
	s.receivers()
	pub := append([]int(nil), evs...)
	s.publish(variant, pub)
	// the caller owns its slice again once the publish call has returned
	for i := range pub {
		pub[i] = vInt("reused")
		for _, e := range evs {
			vAssume(pub[i] != e)
		}
	}
	timeoutOn := s.ps.PubTimeoutAfter > 0
	vWait() // quiescence: receivers are blocked on their (still open) channels
	for i := range s.subs {
		vAssert(!s.closed[i], "no subscriber channel is closed while it stays subscribed")
		for _, e := range evs {
			d := c10count(s.logs[i], e)
			if timeoutOn {
				vAssert(d <= 1, "an event reaches a subscriber at most once")
			} else {
				vAssert(d == 1, "every event reaches every draining subscriber exactly once")
			}
		}
		if variant >= pubSync && !timeoutOn {
			vAssert(len(s.logs[i]) == len(evs), "Sync variants: nothing but the events is delivered")
			for k := range evs {
				if k < len(s.logs[i]) {
					vAssert(s.logs[i][k] == evs[k], "Sync variants deliver in publication order")
				}
			}
		}
	}
	// conservation: every (event, subscriber) pair ends in exactly one delivery or one OnPubTimeout
	for _, e := range evs {
		d := 0
		for i := range s.subs {
			d += c10count(s.logs[i], e)
		}
		vAssert(d+c10count(s.timeouts, e) == nsub, "each (event, subscriber) pair ends in exactly one of a delivery or one OnPubTimeout call")
	}
	if !timeoutOn {
		vAssert(len(s.timeouts) == 0, "OnPubTimeout is not called when no timeout is configured")
	}
	if nsub == 2 {
		vCover("deliver: two subscribers")
	}
	if timeoutOn && len(s.timeouts) > 0 {
		vCover("deliver: a timeout happened")
	}
}

// VHPubWaitReturns: Wait/Sync variants return only after every hand-off has finished:
// with stalled receivers (nobody receives, unbuffered, no timeout) they never return.
func VHPubWaitReturns() {
	s := c10new(1)
	ev := vInt("ev")
	variant := pubWait + vChoose("variant", 4)
	returned := false
	vGo(func() {
		s.publish(variant, []int{ev})
		returned = true
	})
	vWait()
	if !returned {
		// (no receive here: that would complete the blocked hand-off)
		vAssert(len(s.subs[0]) == 0 && len(s.timeouts) == 0, "a publish call that has not returned has neither delivered nor timed out")
		vCover("waitreturns: still blocked")
		return
	}
	delivered := 0
	select {
	case x := <-s.subs[0]:
		if x == ev {
			delivered = 1
		}
	default:
	}
	if returned {
		vAssert(delivered+c10count(s.timeouts, ev) == 1, "Wait/Sync variants return only after the hand-off (into the buffer) or the timeout has finished")
		vCover("waitreturns: returned")
	} else {
		vAssert(delivered == 0 && len(s.timeouts) == 0, "a publish call that has not returned has neither delivered nor timed out")
		vCover("waitreturns: still blocked")
	}
}

// VHPubUnsub: Unsub / UnsubAll / WithOnly semantics (sequential publisher).
func VHPubUnsub() {
	s := c10new(2)
	s.ps.PubTimeoutAfter = 0
	ev1, ev2 := vInt("ev"), vInt("ev")
	vAssume(ev1 != ev2)
	s.receivers()
	vAssert(s.ps.Unsub(nil) == ErrSubscriptionNotInitalized, "Unsub(nil) reports ErrSubscriptionNotInitalized")
	foreign := make(chan int)
	vAssert(s.ps.Unsub(foreign) == ErrAlreadyUnsubscribed, "Unsub(unknown) reports ErrAlreadyUnsubscribed")
	which := vChoose("which", 5)
	switch which {
	case 4:
		// a WithOnly publisher whose subscription the parent removes (it has its own lock, so
		// nothing stops the removal): publishing through it afterwards must neither crash nor deliver
		only := s.ps.WithOnly(s.subs[0])
		if vChoose("all", 2) == 1 {
			s.ps.UnsubAll()
		} else {
			s.ps.Unsub(s.subs[0])
		}
		s.publish(vChoose("variant", 6), []int{ev1})
		only.PubTimeoutAfter = 0
		c := &c10ps{ps: only}
		c.publish(vChoose("variant2", 6), []int{ev2})
		vWait()
		vAssert(s.closed[0], "the removed channel is closed")
		vAssert(c10count(s.logs[0], ev2) == 0, "nothing is delivered to a removed channel through a WithOnly publisher")
		vCover("unsub: withonly after removal")
	case 0, 1:
		s.ps.PubSync(ev1)
		vAssert(s.ps.Unsub(s.subs[which]) == nil, "Unsub(known) succeeds")
		vAssert(s.ps.Unsub(s.subs[which]) == ErrAlreadyUnsubscribed, "a second Unsub reports ErrAlreadyUnsubscribed")
		s.ps.PubSync(ev2)
		vWait()
		other := 1 - which
		vAssert(s.closed[which], "Unsub closes the removed channel")
		vAssert(!s.closed[other], "Unsub leaves the other subscriber's channel open")
		vAssert(c10count(s.logs[which], ev2) == 0, "nothing is delivered to a channel after its removal")
		vAssert(c10count(s.logs[which], ev1) == 1, "events published before the removal were delivered")
		vAssert(c10count(s.logs[other], ev1) == 1 && c10count(s.logs[other], ev2) == 1, "other subscribers are unaffected by Unsub")
		vCover("unsub: one removed")
	case 2:
		s.ps.PubSync(ev1)
		vAssert(s.ps.UnsubAll() == nil, "UnsubAll succeeds")
		s.ps.PubSync(ev2)
		vWait()
		for i := range s.subs {
			vAssert(s.closed[i], "UnsubAll closes every channel")
			vAssert(c10count(s.logs[i], ev1) == 1 && c10count(s.logs[i], ev2) == 0, "nothing is delivered after UnsubAll")
		}
		vAssert(s.ps.Unsub(s.subs[0]) == ErrAlreadyUnsubscribed, "Unsub after UnsubAll reports ErrAlreadyUnsubscribed")
	case 3:
		only := s.ps.WithOnly(s.subs[0])
		// the clone is a PubSub of its own: subscribing on it must not disturb the parent's subscribers
		var onClone <-chan int
		if vChoose("subOnClone", 2) == 1 {
			onClone = only.SubBuf(2)
		}
		only.PubSync(ev1)
		s.ps.PubSync(ev2)
		vWait()
		vAssert(c10count(s.logs[0], ev1) == 1 && c10count(s.logs[1], ev1) == 0, "WithOnly publishes to the one given subscription only")
		vAssert(c10count(s.logs[0], ev2) == 1 && c10count(s.logs[1], ev2) == 1, "the original publisher still reaches every subscriber")
		if onClone != nil {
			x, ok := <-onClone
			vAssert(ok && x == ev1, "a subscription made on the WithOnly clone receives the clone's events")
			select {
			case y := <-onClone:
				vAssert(y != ev2, "a subscription made on the WithOnly clone receives nothing published on the parent")
			default:
			}
			vAssert(!s.closed[0] && !s.closed[1], "subscribing on the clone closes nothing of the parent")
		}
		none := s.ps.WithOnly(foreign)
		none.PubSync(ev1)
		// a WithOnly for a channel that is not (or no longer) subscribed must leave the parent fully
		// usable: subscribing, unsubscribing and publishing still work afterwards
		vAssert(s.ps.Unsub(s.subs[1]) == nil, "Unsub still works after WithOnly(unknown channel)")
		gone := s.ps.WithOnly(s.subs[1])
		gone.PubSync(ev1)
		extra := s.ps.SubBuf(1)
		s.ps.PubSync(ev1)
		x, ok := <-extra
		vAssert(ok && x == ev1, "a subscription made after WithOnly(removed channel) receives events")
		vWait()
		vAssert(s.closed[1] && c10count(s.logs[1], ev1) == 0, "WithOnly(removed channel) delivers nothing")
		vAssert(c10count(s.logs[0], ev1) == 2, "the remaining subscriber got both publishes")
		vCover("unsub: withonly")
	}
}

// VHPubNoPanic: a publisher concurrent with Unsub / UnsubAll / Sub: no interleaving may crash.
func VHPubNoPanic() {
	var s *c10ps
	if vParam("PLAIN") == 1 {
		// exactly SUBS subscribers, unbuffered, no timeout: room for more goroutines
		s = c10newOpt(vParam("SUBS"), false)
	} else {
		s = c10new(1 + vChoose("nsub", vParam("SUBS")))
	}
	ev := vInt("ev")
	variant := vChoose("variant", 6)
	s.receivers()
	vGo(func() { s.publish(variant, []int{ev}) })
	otherOp := vChoose("other", 3)
	switch otherOp {
	case 0:
		vGo(func() { s.ps.Unsub(s.subs[0]) })
	case 1:
		vGo(func() { s.ps.UnsubAll() })
	case 2:
		vGo(func() {
			c := s.ps.Sub()
			select {
			case <-c:
			default:
			}
		})
	}
	vWait()
	for i := range s.subs {
		vAssert(c10count(s.logs[i], ev) <= 1, "an event reaches a subscriber at most once")
	}
	// subscribers that stayed subscribed throughout and keep receiving get the event exactly
	// once (or exactly one OnPubTimeout when a timeout is configured)
	if otherOp != 1 {
		first := 0
		if otherOp == 0 {
			first = 1
		}
		got := 0
		for i := first; i < len(s.subs); i++ {
			got += c10count(s.logs[i], ev)
		}
		stayed := len(s.subs) - first
		if s.ps.PubTimeoutAfter > 0 {
			vAssert(got <= stayed && got+c10count(s.timeouts, ev) >= stayed, "every subscriber that stayed subscribed gets the event or a timeout")
		} else {
			vAssert(got == stayed, "every subscriber that stayed subscribed throughout receives the event exactly once, whatever Unsub/Sub calls run concurrently")
		}
	}
	vCover("nopanic done")
}

// VHPubUnsubConc: two goroutines unsubscribe different channels at the same time (optionally
// while a third publishes): each Unsub closes exactly its own channel and reports success,
// the remaining subscriber stays subscribed and is still served.
func VHPubUnsubConc() {
	s := c10newOpt(3, false)
	ev, ev2 := vInt("ev"), vInt("ev")
	vAssume(ev != ev2)
	s.receivers()
	a := vChoose("first", 3)
	b := (a + 1 + vChoose("second", 2)) % 3
	rest := 3 - a - b
	var ea, eb error
	vGo(func() { ea = s.ps.Unsub(s.subs[a]) })
	vGo(func() { eb = s.ps.Unsub(s.subs[b]) })
	if vChoose("publisher", 2) == 1 {
		vGo(func() { s.ps.PubSync(ev) })
	}
	vWait()
	vAssert(ea == nil && eb == nil, "concurrent Unsub calls of different subscribed channels both succeed")
	s.ps.PubSync(ev2)
	vWait()
	vAssert(s.closed[a] && s.closed[b], "each Unsub closes exactly the channel it removes")
	vAssert(!s.closed[rest], "the remaining subscriber's channel stays open")
	vAssert(c10count(s.logs[rest], ev2) == 1, "the remaining subscriber is still served")
	vAssert(c10count(s.logs[a], ev2) == 0 && c10count(s.logs[b], ev2) == 0, "nothing is delivered to a channel after its removal")
	vAssert(s.ps.Unsub(s.subs[a]) == ErrAlreadyUnsubscribed, "a removed channel is reported as already unsubscribed")
	vCover("unsubconc done")
}
