package chans

import (
	"context"
	"time"
)

// C19 — channel helpers never lose, duplicate or invent a value.
// Time is a nondeterministic environment: a timer may fire at any scheduling point.

type c19ctx struct{ done chan struct{} }

func (c c19ctx) Deadline() (time.Time, bool) { return time.Time{}, false }
func (c c19ctx) Done() <-chan struct{}       { return c.done }
func (c c19ctx) Value(key any) any           { return nil }

// Err follows the Context contract: nil until Done is closed, non-nil afterwards.
func (c c19ctx) Err() error {
	select {
	case <-c.done:
		return context.Canceled
	default:
		return nil
	}
}

var _ context.Context = c19ctx{}

// c19context: 1 = the stub above, 2 = context.WithCancel run from source, 3 = context.WithTimeout
// (its timer fires at any scheduling point, like every timer).
func c19context(kind int) (context.Context, func()) {
	switch kind {
	case 2:
		return context.WithCancel(context.Background())
	case 3:
		return context.WithTimeout(context.Background(), time.Second)
	}
	c := c19ctx{make(chan struct{})}
	return c, func() { close(c.done) }
}

// c19chan: a channel of capacity 0..C holding 0..cap distinct symbolic values.
func c19chan(v int) (chan int, []int) {
	c := vChoose("cap", vParam("C")+1)
	f := vChoose("fill", c+1)
	ch := make(chan int, c)
	var q []int
	for i := 0; i < f; i++ {
		x := vInt("queued")
		vAssume(x != v)
		vAssume(x != 0)
		for _, y := range q {
			vAssume(x != y)
		}
		q = append(q, x)
		ch <- x
	}
	return ch, q
}

func c19drain(ch chan int) []int {
	var out []int
	for i := 0; i < 8; i++ {
		select {
		case x, ok := <-ch:
			if !ok {
				return out
			}
			out = append(out, x)
		default:
			return out
		}
	}
	return out
}

func c19count(xs []int, v int) int {
	n := 0
	for _, x := range xs {
		if x == v {
			n++
		}
	}
	return n
}

// VHSend: SendTimeout / SendContext against a peer that receives 0 or 1 times.
func VHSend() {
	v := vInt("v")
	ch, q := c19chan(v)
	kind := vChoose("ctx", 4)
	useCtx := kind != 0
	ctx, cancel := c19context(kind)
	timeout := vInt64("timeout")
	var peerGot []int
	if vChoose("peer", 2) == 1 {
		vGo(func() { peerGot = append(peerGot, <-ch) })
	}
	if useCtx {
		switch vChoose("cancel", 3) {
		case 1:
			vGo(cancel)
		case 2:
			cancel() // cancelled before the call
		}
	}
	returned, res := false, false
	vGo(func() {
		if useCtx {
			res = SendContext(ctx, ch, v)
		} else {
			res = SendTimeout(ch, v, time.Duration(timeout))
		}
		returned = true
	})
	vWait()
	if !returned {
		// (the channel is not drained here: that would wake the blocked sender)
		vAssert(c19count(peerGot, v) == 0, "a send that has not returned has not handed the value over")
		if !useCtx {
			vAssert(timeout <= 0, "SendTimeout with a positive timeout always returns")
		}
		vAssert(kind != 3, "SendContext returns once the context's deadline has passed")
		vCover("send: blocked forever (no limit)")
		return
	}
	rest := c19drain(ch)
	where := c19count(peerGot, v) + c19count(rest, v)
	if res {
		vAssert(where == 1, "Send* returns true exactly when the value was handed to the channel, once")
		vCover("send: delivered")
	} else {
		vAssert(where == 0, "when Send* returns false the value was not sent")
		if !useCtx {
			vAssert(timeout > 0, "a non-positive timeout means wait without limit: SendTimeout cannot give up")
		}
		vCover("send: gave up")
	}
	// nothing else was lost or duplicated
	for _, x := range q {
		vAssert(c19count(peerGot, x)+c19count(rest, x) == 1, "Send* does not lose or duplicate queued values")
	}
}

// VHRecv: RecvTimeout / RecvContext against a peer that sends 0 or 1 times or closes.
func VHRecv() {
	v := vInt("v")
	ch, q := c19chan(v)
	kind := vChoose("ctx", 4)
	useCtx := kind != 0
	ctx, cancel := c19context(kind)
	timeout := vInt64("timeout")
	peer := vChoose("peer", 3) // 0 nothing, 1 sends v, 2 closes
	switch peer {
	case 1:
		vGo(func() { ch <- v }) // (the first goroutine started: vThreadDone(0) tells whether the send completed)
	case 2:
		vGo(func() { close(ch) })
	}
	if useCtx {
		switch vChoose("cancel", 3) {
		case 1:
			vGo(cancel)
		case 2:
			cancel() // cancelled before the call: with a value ready either outcome is allowed
		}
	}
	returned, ok, got := false, false, 0
	vGo(func() {
		if useCtx {
			got, ok = RecvContext[<-chan int](ctx, ch)
		} else {
			got, ok = RecvTimeout(ch, time.Duration(timeout))
		}
		returned = true
	})
	vWait()
	if !returned {
		if !useCtx {
			vAssert(timeout <= 0, "RecvTimeout with a positive timeout always returns")
		}
		vAssert(kind != 3, "RecvContext returns once the context's deadline has passed")
		vAssert(len(q) == 0, "a receive blocks only on an empty channel")
		vCover("recv: blocked forever (no limit)")
		return
	}
	sentBefore := peer == 1 && vThreadDone(0)
	rest := c19drain(ch)
	if ok {
		// took exactly the head of the queue
		want := v
		if len(q) > 0 {
			want = q[0]
		}
		vAssert(got == want, "Recv* returns (v,true) exactly when it took v from the channel, in FIFO order")
		vAssert(c19count(rest, got) == 0, "the received value left the channel")
		vCover("recv: received")
	} else {
		vAssert(got == 0, "Recv* returns the zero value with false")
		for i, x := range q {
			if i < len(rest) {
				vAssert(rest[i] == x, "Recv* that returns false has consumed nothing")
			}
		}
		vAssert(len(rest) >= len(q), "Recv* that returns false has consumed nothing (count)")
		if sentBefore {
			vAssert(c19count(rest, v) == 1, "a value the peer handed over is still in the channel when Recv* returns false")
		}
		if !useCtx && peer != 2 {
			vAssert(timeout > 0, "a non-positive timeout means wait without limit: RecvTimeout cannot give up on an open channel")
		}
		vCover("recv: gave up or closed")
	}
}

// VHRecvQueued: the non-blocking bulk receivers.
func VHRecvQueued() {
	ch, q := c19chan(0)
	closed := vChoose("closed", 2) == 1
	if closed {
		close(ch)
	}
	full := vChoose("full", 2) == 1
	limit := vInt("limit") // any int for RecvQueued; the buffer length for RecvQueuedFull
	if full {
		vAssume(vAnd(-1 <= limit, limit <= vParam("C")+2))
	}
	want := limit
	if want < 0 {
		want = 0
	}
	if want > len(q) {
		want = len(q)
	}
	// optionally a competing consumer takes one value at an arbitrary moment
	compete := vParam("COMPETE") == 1 && vChoose("compete", 2) == 1
	var stolen []int
	if compete {
		vGo(func() {
			select {
			case x, ok := <-ch:
				if ok {
					stolen = append(stolen, x)
				}
			default:
			}
		})
	}
	var got []int
	done := false
	vGo(func() {
		if full {
			n := limit
			if n < 0 {
				n = 0
			}
			backing := make([]int, n+2) // spare capacity behind the buffer must stay untouched
			buf := backing[:n]
			k := RecvQueuedFull(ch, buf)
			vAssert(backing[n] == 0 && backing[n+1] == 0, "RecvQueuedFull writes nothing beyond len(buf)")
			vAssert(0 <= k && k <= n, "RecvQueuedFull returns a count within the buffer")
			if k >= 0 && k <= n {
				got = buf[:k]
			}
		} else {
			got = RecvQueued(ch, limit)
		}
		done = true
	})
	vWait()
	vAssert(done, "RecvQueued* never block")
	if !done {
		return
	}
	if compete {
		// with a second consumer: a FIFO-ordered subsequence of the queued values, nothing invented,
		// nothing lost or duplicated overall
		rest := c19drain(ch)
		vAssert(len(got) <= want, "RecvQueued* never return more than the limit or than was queued")
		last := -1
		for _, x := range got {
			at := -1
			for j, y := range q {
				if x == y {
					at = j
				}
			}
			vAssert(at >= 0, "RecvQueued* return only values that were sent (competing consumer)")
			vAssert(at > last, "RecvQueued* keep FIFO order (competing consumer)")
			last = at
		}
		vAssert(len(got)+len(stolen)+len(rest) == len(q), "no value is lost or duplicated between RecvQueued*, a competing consumer and the channel")
		if len(stolen) == 1 && len(got) >= 1 {
			vCover("recvqueued: competing consumer took a value")
		}
		return
	}
	vAssert(len(got) == want, "RecvQueued* return exactly the values already queued, up to the limit, adding nothing that was never sent")
	for i := range got {
		if i < len(q) {
			vAssert(got[i] == q[i], "RecvQueued* return the queued values in FIFO order")
		}
	}
	rest := c19drain(ch)
	vAssert(len(rest) == len(q)-want, "RecvQueued* leave the remaining values in the channel")
	if closed && limit > len(q) {
		vCover("recvqueued: closed and drained before the limit")
	}
	if !closed && want >= 2 {
		vCover("recvqueued: >= 2 values")
	}
}

// VHRecvQueuedLong: the bulk receivers on long queues (lengths around powers of two), one
// goroutine: exactly the queued values, in order, up to the limit; the rest stays queued.
func VHRecvQueuedLong() {
	lens := []int{15, 16, 17, 31, 32, 33, 63, 64, 65, 96, 128}
	f := lens[vChoose("queued", len(lens))]
	if f > vParam("QMAX") {
		f = vParam("QMAX")
	}
	base := vInt("base")
	vAssume(vAnd(base >= 1, base <= 1000000))
	ch := make(chan int, f+2)
	for i := 0; i < f; i++ {
		ch <- base + i
	}
	closed := vChoose("closed", 2) == 1
	if closed {
		close(ch)
	}
	limit := []int{f, f - 1, f + 1, f / 2, 32, 1 << 20}[vChoose("limit", 6)]
	want := limit
	if want > f {
		want = f
	}
	var got []int
	if vChoose("full", 2) == 1 {
		n := limit
		if n > 1<<10 { // a buffer larger than the queue stands for any larger one
			n = f + 1
		}
		backing := make([]int, n+2)
		buf := backing[:n]
		k := RecvQueuedFull(ch, buf)
		vAssert(0 <= k && k <= len(buf), "RecvQueuedFull (long): count within the buffer")
		vAssert(backing[len(buf)] == 0 && backing[len(buf)+1] == 0, "RecvQueuedFull (long): nothing written beyond len(buf)")
		if k >= 0 && k <= len(buf) {
			got = buf[:k]
		}
	} else {
		got = RecvQueued(ch, limit)
	}
	vAssert(len(got) == want, "RecvQueued* (long): exactly the values already queued, up to the limit")
	for i := range got {
		vAssert(got[i] == base+i, "RecvQueued* (long): FIFO order, nothing invented")
	}
	// the rest is still queued
	rest := 0
	for {
		stop := false
		select {
		case x, ok := <-ch:
			if !ok {
				stop = true
				break
			}
			vAssert(x == base+want+rest, "RecvQueued* (long): the remaining values stay queued in order")
			rest++
		default:
			stop = true
		}
		if stop {
			break
		}
	}
	vAssert(rest == f-want, "RecvQueued* (long): no value is lost")
	if f >= 64 {
		vCover("recvqueued long: >= 64 queued")
	}
}
