package chans

// C10 (continued) — long subscription histories, single goroutine. Buffered subscriptions let
// PubSync / PubSliceSync complete without receivers, so a history of G subscriptions,
// removals down to a few, and renewed growth runs sequentially; afterwards every channel's
// buffer must hold exactly the events published while it was subscribed, in order, and every
// removed channel must be closed - whatever the subscriber list's capacity went through.

func c10cdrain(ch <-chan int) (vals []int, closed bool) {
	for i := 0; i < 16; i++ {
		select {
		case v, ok := <-ch:
			if !ok {
				return vals, true
			}
			vals = append(vals, v)
		default:
			return vals, false
		}
	}
	return vals, false
}

func VHPubChurn() {
	g := vParam("G")
	ps := &PubSub[int]{}
	if vChoose("defaultBuffer", 2) == 1 {
		ps.DefaultBuffer = 4
	}
	var subs []<-chan int
	var want [][]int
	var live []bool
	plain := ps.DefaultBuffer > 0 && vChoose("plainSub", 2) == 1
	add := func() {
		if plain {
			subs = append(subs, ps.Sub())
		} else {
			subs = append(subs, ps.SubBuf(4))
		}
		want = append(want, nil)
		live = append(live, true)
	}
	pub := func(ev int) {
		// (the Wait variants start a goroutine per subscriber: beyond the engine's thread limit here)
		if vChoose("variant", 2) == 0 {
			ps.PubSync(ev)
		} else {
			ps.PubSliceSync([]int{ev})
		}
		for i := range subs {
			if live[i] {
				want[i] = append(want[i], ev)
			}
		}
	}
	for i := 0; i < g; i++ {
		add()
	}
	ev1, ev2, ev3 := vInt("ev"), vInt("ev"), vInt("ev")
	if vChoose("pubFirst", 2) == 1 {
		pub(ev1)
	}
	// shrink to keep subscribers, removing from the front, from the back, or every other one first
	keep := []int{0, 1, 3, g / 4, g/4 + 1}[vChoose("keep", 5)]
	order := vChoose("order", 3)
	removed := 0
	for pass := 0; pass < 2 && removed < g-keep; pass++ {
		for j := 0; j < g && removed < g-keep; j++ {
			i := j
			switch order {
			case 1:
				i = g - 1 - j
			case 2:
				if pass == 0 && j%2 == 1 {
					continue
				}
			}
			if !live[i] {
				continue
			}
			vAssert(ps.Unsub(subs[i]) == nil, "churn: Unsub of a subscribed channel succeeds")
			live[i] = false
			removed++
		}
	}
	pub(ev2)
	// a channel removed earlier is unknown now; removing it again must say so and must not disturb anything
	for i := range subs {
		if !live[i] {
			pan := vPanics(func() {
				vAssert(ps.Unsub(subs[i]) == ErrAlreadyUnsubscribed, "churn: a second Unsub reports ErrAlreadyUnsubscribed")
			})
			vAssert(!pan, "churn: a second Unsub does not panic")
			break
		}
	}
	// grow again
	for i := 0; i < 2; i++ {
		add()
	}
	pub(ev3)
	if vChoose("unsubAll", 2) == 1 {
		vAssert(ps.UnsubAll() == nil, "churn: UnsubAll succeeds")
		for i := range live {
			live[i] = false
		}
	}
	for i := range subs {
		vals, closed := c10cdrain(subs[i])
		vAssert(closed == !live[i], "churn: exactly the removed channels are closed")
		vAssert(len(vals) == len(want[i]), "churn: every channel got each event published while it was subscribed exactly once")
		for j := range vals {
			if j < len(want[i]) {
				vAssert(vals[j] == want[i][j], "churn: events arrive in publication order")
			}
		}
	}
	if keep >= 3 {
		vCover("pubsub churn: grown, shrunk to >= 3, grown again")
	}
}
