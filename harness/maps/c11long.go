package maps

// C11 at scale: a Bimap of NB (80, thorough 400) pairs (i, 1000+i), so that anything keyed to
// the size (copy-on-write clones, shared tables, rehash thresholds) is reached. It is cloned;
// then one of the two (chosen per path) receives a few operations - an Add whose key and value
// each either collide with an existing pair near the low end or are new, a RemoveForward, a
// RemoveReverse, a second Add, optionally a Clear - and after every operation BOTH bimaps are
// compared in full with their own plain-map models: every key and value of the range looked up
// in both directions, Len, and a Range that must report exactly the live pairs. The other of the
// two must never change.

type c11lm struct{ fw, rv map[int]int }

func (m *c11lm) add(k, v int) {
	if ov, ok := m.fw[k]; ok {
		delete(m.rv, ov)
	}
	if ok2, ok := m.rv[v]; ok {
		delete(m.fw, ok2)
	}
	m.fw[k] = v
	m.rv[v] = k
}

func (m *c11lm) removeForward(k int) {
	if v, ok := m.fw[k]; ok {
		delete(m.fw, k)
		delete(m.rv, v)
	}
}

func (m *c11lm) removeReverse(v int) {
	if k, ok := m.rv[v]; ok {
		delete(m.rv, v)
		delete(m.fw, k)
	}
}

func (m *c11lm) clone() *c11lm {
	c := &c11lm{fw: map[int]int{}, rv: map[int]int{}}
	for k, v := range m.fw {
		c.fw[k] = v
		c.rv[v] = k
	}
	return c
}

func c11lcheck(b *Bimap[int, int], m *c11lm, n int, what string) {
	vAssert(b.Len() == len(m.fw), what+": Len is the number of pairs")
	for k := -2; k < n+3; k++ {
		v, ok := b.GetForward(k)
		mv, mok := m.fw[k]
		vAssert(ok == mok && (!ok || v == mv), what+": GetForward agrees with the model")
		vAssert(b.ContainsForward(k) == mok, what+": ContainsForward agrees with the model")
		rk, rok := b.GetReverse(1000 + k)
		mk, mrok := m.rv[1000+k]
		vAssert(rok == mrok && (!rok || rk == mk), what+": GetReverse agrees with the model")
		vAssert(b.ContainsReverse(1000+k) == mrok, what+": ContainsReverse agrees with the model")
	}
	cnt := 0
	b.Range(func(k, v int) bool {
		cnt++
		mv, ok := m.fw[k]
		vAssert(ok && mv == v, what+": Range reports live pairs only")
		return true
	})
	vAssert(cnt == len(m.fw), what+": Range reports every pair once")
}

func VHBimapLong() {
	vMapOrder(false)
	n := vParam("NB")
	var b Bimap[int, int]
	mb := &c11lm{fw: map[int]int{}, rv: map[int]int{}}
	for i := 0; i < n; i++ {
		b.Add(i, 1000+i)
		mb.add(i, 1000+i)
	}
	c := b.Clone()
	mc := mb.clone()
	c11lcheck(&b, mb, n, "long bimap: original after Clone")
	c11lcheck(&c, mc, n, "long bimap: the clone")
	// t: the one that is written to, o: the other one
	t, mt, o, mo := &c, mc, &b, mb
	if vChoose("writeTo", 2) == 1 {
		t, mt, o, mo = &b, mb, &c, mc
	}
	pick := func(name string, base int) int { // an existing one near the low end, or a new one
		if vChoose(name+".new", 2) == 1 {
			return base + n + 1
		}
		return base + vRange(name, 0, 3)
	}
	k, v := pick("k", 0), pick("v", 1000)
	t.Add(k, v)
	mt.add(k, v)
	c11lcheck(t, mt, n, "long bimap: the written one after a colliding Add")
	c11lcheck(o, mo, n, "long bimap: the other one after a colliding Add")
	rk := vRange("rk", 0, 3)
	t.RemoveForward(rk)
	mt.removeForward(rk)
	rv := 1000 + vRange("rv", 2, 5)
	t.RemoveReverse(rv)
	mt.removeReverse(rv)
	c11lcheck(t, mt, n, "long bimap: the written one after removals")
	c11lcheck(o, mo, n, "long bimap: the other one after removals")
	if vChoose("clear", 2) == 1 {
		t.Clear()
		mt.fw, mt.rv = map[int]int{}, map[int]int{}
	}
	t.Add(1, 1000+n+2)
	mt.add(1, 1000+n+2)
	o.Add(n+2, 1001)
	mo.add(n+2, 1001)
	c11lcheck(t, mt, n, "long bimap: the written one at the end")
	c11lcheck(o, mo, n, "long bimap: the other one at the end")
	vCover("bimap long done")
}

// VHBimapChurn: NCH (300, thorough 3000) alternating removals and additions keep a Bimap at
// 100, 40 or 6 pairs, removing by key and by value in turn, so that anything counted over the
// life of the map (removal counters, periodic repacking, tombstones) turns over many times. The
// pair just removed and its neighbours are looked up in both directions after every step; the
// whole map is compared with the model every 16 steps and at the end; one symbolic key and one
// symbolic value are looked up at the end.
func VHBimapChurn() {
	vMapOrder(false)
	nch := vParam("NCH")
	size := []int{100, 40, 6}[vChoose("size", 3)]
	var b Bimap[int, int]
	m := &c11lm{fw: map[int]int{}, rv: map[int]int{}}
	for i := 0; i < size; i++ {
		b.Add(i, 1000+i)
		m.add(i, 1000+i)
	}
	look := func(k int, what string) {
		v, ok := b.GetForward(k)
		mv, mok := m.fw[k]
		vAssert(ok == mok && (!ok || v == mv), what+": GetForward agrees with the model")
		rk, rok := b.GetReverse(1000 + k)
		mk, mrok := m.rv[1000+k]
		vAssert(rok == mrok && (!rok || rk == mk), what+": GetReverse agrees with the model")
	}
	lo := 0 // the live pairs are lo .. lo+size-1
	for i := 0; i < nch; i++ {
		if i%2 == 0 {
			b.RemoveForward(lo)
			m.removeForward(lo)
		} else {
			b.RemoveReverse(1000 + lo)
			m.removeReverse(1000 + lo)
		}
		look(lo, "bimap churn: after a removal")
		look(lo+1, "bimap churn: after a removal")
		nk := lo + size
		b.Add(nk, 1000+nk)
		m.add(nk, 1000+nk)
		look(nk, "bimap churn: after an addition")
		lo++
		vAssert(b.Len() == len(m.fw), "bimap churn: Len is the number of pairs")
		if i%16 == 15 {
			for k := lo - 2; k < lo+size+2; k++ {
				look(k, "bimap churn")
			}
		}
	}
	cnt := 0
	b.Range(func(k, v int) bool {
		cnt++
		mv, ok := m.fw[k]
		vAssert(ok && mv == v, "bimap churn: Range reports live pairs only")
		return true
	})
	vAssert(cnt == len(m.fw), "bimap churn: Range reports every pair once")
	pk := vRange("pk", lo-3, lo+4)
	v, ok := b.GetForward(pk)
	mv, mok := m.fw[pk]
	vAssert(ok == mok && (!ok || v == mv), "bimap churn: GetForward of any key agrees at the end")
	pv := 1000 + vRange("pv", lo-3, lo+4)
	k2, ok2 := b.GetReverse(pv)
	mk, mok2 := m.rv[pv]
	vAssert(ok2 == mok2 && (!ok2 || k2 == mk), "bimap churn: GetReverse of any value agrees at the end")
	vCover("bimap churn done")
}
