package maps

// C14 (maps part) — Clone, Clear, Keys, Values, KeyOf, ContainsValue, HasKey over Go maps
// of up to N symbolic entries, in every iteration order the engine explores.

func c14map() (map[int]int, []int, []int) {
	n := vChoose("n", vParam("N")+1)
	m := map[int]int{}
	var ks, vs []int
	for i := 0; i < n; i++ {
		k, v := vInt("k"), vInt("v")
		for _, o := range ks {
			vAssume(k != o)
		}
		ks = append(ks, k)
		vs = append(vs, v)
		m[k] = v
	}
	return m, ks, vs
}

func c14same(m map[int]int, ks, vs []int, label string) {
	vAssert(len(m) == len(ks), label)
	for i, k := range ks {
		v, ok := m[k]
		vAssert(ok, label)
		vAssert(v == vs[i], label)
	}
}

func c14probe(ks, vs []int) (pk, pv int, hasK, hasV bool, cntV int) {
	pk, pv = vInt("pk"), vInt("pv")
	for i := range ks {
		hasK = vOr(hasK, ks[i] == pk)
		hasV = vOr(hasV, vs[i] == pv)
		cntV += vB2I(vs[i] == pv)
	}
	return
}

func VHMapsLookup() {
	m, ks, vs := c14map()
	pk, pv, hasK, hasV, _ := c14probe(ks, vs)
	vAssert(HasKey(m, pk) == hasK, "HasKey agrees with membership")
	vAssert(ContainsValue(m, pv) == hasV, "ContainsValue agrees with the values present")
	k, ok := KeyOf(m, pv)
	vAssert(ok == hasV, "KeyOf reports true exactly when some entry holds the value")
	if ok {
		v2, ok2 := m[k]
		vAssert(ok2, "KeyOf returns a key of the map")
		vAssert(v2 == pv, "KeyOf returns a key that maps to the value")
	} else {
		vAssert(k == 0, "KeyOf returns the zero key when not found")
	}
	c14same(m, ks, vs, "lookup helpers do not modify the map")
	if len(ks) >= 3 {
		vCover("maps n >= 3")
	}
}

func VHMapsKeysValues() {
	m, ks, vs := c14map()
	n := len(ks)
	_, pv, _, _, cntV := c14probe(ks, vs)
	if vChoose("which", 2) == 0 {
		keys := Keys(m)
		vAssert(len(keys) == n, "Keys: one entry per key")
		for i := range ks {
			c := 0
			for _, x := range keys {
				c += vB2I(x == ks[i])
			}
			vAssert(c == 1, "Keys: every key exactly once")
		}
		for i := range keys {
			keys[i] = 0
		}
	} else {
		vals := Values(m)
		vAssert(len(vals) == n, "Values: one entry per key")
		c := 0
		for _, x := range vals {
			c += vB2I(x == pv)
		}
		vAssert(c == cntV, "Values: exactly the multiset of values")
		for i := range vals {
			vals[i] = 0
		}
	}
	c14same(m, ks, vs, "Keys/Values do not modify the map; writing the result does not either")
	if n >= 3 {
		vCover("maps n >= 3")
	}
}

func VHMapsCloneClear() {
	m, ks, vs := c14map()
	pk, _, _, _, _ := c14probe(ks, vs)
	cl := Clone(m)
	c14same(cl, ks, vs, "Clone has the same entries")
	cl[vInt("nk")] = vInt("nv")
	for _, kk := range ks {
		delete(cl, kk)
	}
	c14same(m, ks, vs, "modifying the clone leaves the original unchanged")
	Clear(m)
	vAssert(len(m) == 0, "Clear empties the map")
	vAssert(!HasKey(m, pk), "Clear removes every key")
	var nilm map[int]int
	Clear(nilm)
	vAssert(len(Clone(nilm)) == 0, "Clone(nil) is empty")
	// "every returned map is new and can be modified": also the clone of a nil or empty map
	nc := Clone(nilm)
	vAssert(!vPanics(func() { nc[1] = 2 }) && nc[1] == 2 && len(nilm) == 0, "Clone(nil) is a new map that can be modified")
	em := map[int]int{}
	ec := Clone(em)
	vAssert(!vPanics(func() { ec[1] = 2 }) && len(em) == 0, "the clone of an empty map is a new map that can be modified")
	vAssert(Keys(nilm) != nil || len(Keys(nilm)) == 0, "Keys(nil)")
	vAssert(len(Keys(nilm)) == 0, "Keys(nil) is empty")
	if len(ks) >= 3 {
		vCover("maps n >= 3")
	}
}
