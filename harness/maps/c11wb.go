package maps

// C11, white-box part: places pairs directly in Bimap's two maps. If the representation changes
// this file no longer compiles; the check then leaves it out (spec field "whitebox") and c11pre
// builds every pre-state with Add instead.

func init() {
	c11direct = func(b *Bimap[int, int], ks, vs []int) {
		b.forward, b.reverse = map[int]int{}, map[int]int{}
		for i := range ks {
			b.forward[ks[i]] = vs[i]
			b.reverse[vs[i]] = ks[i]
		}
	}
}
