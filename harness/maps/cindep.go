package maps

// Independent Bimaps and map helper calls from different goroutines must not influence each
// other (C11, C14): fixed scripts, fingerprints compared with a sequential run, no data race.

func cindepRun(seed, off int) []int {
	var out []int
	var b Bimap[int, int]
	for i := 0; i < 8; i++ {
		b.Add((i*3+seed)%5+off, i+100+off)
	}
	b.RemoveForward(1 + off)
	b.RemoveReverse(104 + off)
	c := b.Clone()
	c.Add(9+off, 9+off)
	for k := off; k < off+6; k++ {
		v, ok := b.GetForward(k)
		if ok {
			k2, _ := b.GetReverse(v)
			out = append(out, k, v, k2)
		}
	}
	out = append(out, b.Len(), c.Len())
	m := map[int]int{1 + off: 10, 2 + off: 20, 3 + off: 30}
	cl := Clone(m)
	cl[4+off] = 40
	out = append(out, len(m), len(cl), len(Keys(m)), len(Values(m)))
	k, ok := KeyOf(m, 20)
	if ok {
		out = append(out, k)
	}
	if HasKey(m, 2+off) && ContainsValue(m, 30) {
		out = append(out, 1)
	}
	s := NewSetFromSlice([]int{1 + off, 2 + off, 2 + off})
	out = append(out, s.Len())
	Clear(cl)
	out = append(out, len(cl))
	return out
}

func VHIndepConc() {
	off := vInt("off")
	vAssume(vAnd(off >= -1000, off <= 1000))
	expA, expB := cindepRun(1, off), cindepRun(2, off)
	var gotA, gotB []int
	vGo(func() { gotA = cindepRun(1, off) })
	vGo(func() { gotB = cindepRun(2, off) })
	vAssert(vWait(), "independent maps: both goroutines finish")
	vAssert(len(gotA) == len(expA) && len(gotB) == len(expB), "independent maps used concurrently behave as they do sequentially (length)")
	for i := range expA {
		if i < len(gotA) {
			vAssert(gotA[i] == expA[i], "independent maps used concurrently behave as they do sequentially")
		}
	}
	for i := range expB {
		if i < len(gotB) {
			vAssert(gotB[i] == expB[i], "independent maps used concurrently behave as they do sequentially")
		}
	}
	vCover("indep conc done")
}
