package maps

// C11 — Bimap keeps its two directions mutually inverse.
// Model: a list of (key, value, alive) triples, alive being a Boolean term updated without
// forking; probes pk / pv are universally quantified.

type c11model struct {
	ks, vs []int
	alive  []bool
}

func (m *c11model) add(k, v int) {
	for i := range m.ks {
		m.alive[i] = vAnd(m.alive[i], vAnd(m.ks[i] != k, m.vs[i] != v))
	}
	m.ks = append(m.ks, k)
	m.vs = append(m.vs, v)
	m.alive = append(m.alive, true)
}

func (m *c11model) removeForward(k int) {
	for i := range m.ks {
		m.alive[i] = vAnd(m.alive[i], m.ks[i] != k)
	}
}

func (m *c11model) removeReverse(v int) {
	for i := range m.ks {
		m.alive[i] = vAnd(m.alive[i], m.vs[i] != v)
	}
}

func (m *c11model) clear() {
	for i := range m.alive {
		m.alive[i] = false
	}
}

func (m *c11model) forward(pk int) (int, bool) {
	ok, val := false, 0
	for i := range m.ks {
		hit := vAnd(m.alive[i], m.ks[i] == pk)
		ok = vOr(ok, hit)
		val = vIte(hit, m.vs[i], val)
	}
	return val, ok
}

func (m *c11model) reverse(pv int) (int, bool) {
	ok, key := false, 0
	for i := range m.ks {
		hit := vAnd(m.alive[i], m.vs[i] == pv)
		ok = vOr(ok, hit)
		key = vIte(hit, m.ks[i], key)
	}
	return key, ok
}

func (m *c11model) size() int {
	n := 0
	for i := range m.alive {
		n += vB2I(m.alive[i])
	}
	return n
}

func c11check(b *Bimap[int, int], m *c11model, pk, pv int, what string) {
	ev, eok := m.forward(pk)
	gv, gok := b.GetForward(pk)
	vAssert(gok == eok, what+": GetForward finds exactly the keys of live pairs")
	vAssert(vImplies(eok, gv == ev), what+": GetForward returns the paired value")
	vAssert(vImplies(!eok, gv == 0), what+": GetForward returns zero when absent")
	vAssert(b.ContainsForward(pk) == eok, what+": ContainsForward agrees with GetForward")
	ek, erok := m.reverse(pv)
	gk, grok := b.GetReverse(pv)
	vAssert(grok == erok, what+": GetReverse finds exactly the values of live pairs")
	vAssert(vImplies(erok, gk == ek), what+": GetReverse returns the paired key")
	vAssert(b.ContainsReverse(pv) == erok, what+": ContainsReverse agrees with GetReverse")
	vAssert(b.Len() == m.size(), what+": Len is the number of pairs")
	// the two directions are inverse of each other
	if gok {
		k2, ok2 := b.GetReverse(gv)
		vAssert(ok2, what+": GetForward(k)=(v,true) implies GetReverse(v) is found")
		vAssert(k2 == pk, what+": GetForward(k)=(v,true) implies GetReverse(v)=(k,true)")
	}
	if grok {
		v2, ok2 := b.GetForward(gk)
		vAssert(ok2, what+": GetReverse(v)=(k,true) implies GetForward(k) is found")
		vAssert(v2 == pv, what+": GetReverse(v)=(k,true) implies GetForward(k)=(v,true)")
	}
}

// c11op runs one operation on the Bimap and the model. The operation's own post-conditions are
// returned as a closure, to be checked AFTER the general probes: a lookup of the pair just added
// would otherwise refresh any state the implementation keeps about recent lookups and hide a
// stale one.
func c11op(b *Bimap[int, int], m *c11model, op int) func() {
	switch op {
	case 0:
		k, v := vInt("ak"), vInt("av")
		b.Add(k, v)
		m.add(k, v)
		return func() {
			gv, ok := b.GetForward(k)
			vAssert(ok && gv == v, "Add(k,v): afterwards forward(k) = v")
			gk, ok2 := b.GetReverse(v)
			vAssert(ok2 && gk == k, "Add(k,v): afterwards reverse(v) = k")
		}
	case 1:
		k := vInt("rk")
		b.RemoveForward(k)
		m.removeForward(k)
		return func() { vAssert(!b.ContainsForward(k), "RemoveForward(k): k is gone") }
	case 2:
		v := vInt("rv")
		b.RemoveReverse(v)
		m.removeReverse(v)
		return func() { vAssert(!b.ContainsReverse(v), "RemoveReverse(v): v is gone") }
	case 3:
		b.Clear()
		m.clear()
		return func() { vAssert(b.Len() == 0, "Clear: Len is 0") }
	}
	return func() {}
}

func VHBimapHist() {
	b := &Bimap[int, int]{}
	m := &c11model{}
	pk, pv := vInt("pk"), vInt("pv")
	k := vParam("K")
	for i := 0; i < k; i++ {
		post := c11op(b, m, vChoose("op", 4))
		c11check(b, m, pk, pv, "history")
		post()
	}
	if len(m.ks) >= 2 {
		vCover("bimap: history with >= 2 Adds")
	}
}

// VHBimapPhases: a long concrete history (grow to G pairs, shrink to a few, optionally grow
// again) followed by K operations with symbolic arguments; afterwards every key and value
// ever used, and the operations' own arguments, are probed against the model. Reaches
// size- and history-dependent behaviour (thresholds, rebuilds) that the short histories and
// the directly constructed pre-states cannot.
func VHBimapPhases() {
	g := vParam("G")
	b := &Bimap[int, int]{}
	m := &c11model{}
	for i := 0; i < g; i++ {
		b.Add(i, 1000+i)
		m.add(i, 1000+i)
	}
	vAssert(b.Len() == g, "phases: Len after growing")
	// how many pairs survive the shrinking: none, one, or a few (at most a quarter of the peak)
	keep := []int{0, 1, vParam("KEEP")}[vChoose("keep", 3)]
	fromFront := vChoose("fromFront", 2) == 1
	for j := 0; j < g-keep; j++ {
		i := keep + j
		if fromFront {
			i = j
		}
		if j%2 == 0 {
			b.RemoveForward(i)
			m.removeForward(i)
		} else {
			b.RemoveReverse(1000 + i)
			m.removeReverse(1000 + i)
		}
	}
	vAssert(b.Len() == keep, "phases: Len after shrinking")
	regrow := vChoose("regrow", 3) // 0 none, 1 fresh pairs, 2 a clone continues
	if regrow == 2 {
		c := b.Clone()
		b = &c
	}
	if regrow >= 1 {
		for i := 0; i < 3; i++ {
			b.Add(2000+i, 3000+i)
			m.add(2000+i, 3000+i)
		}
	}
	var args []int
	for s := 0; s < vParam("K"); s++ {
		switch vChoose("op", 3) {
		case 0:
			k, v := vInt("ak"), vInt("av")
			b.Add(k, v)
			m.add(k, v)
			args = append(args, k, v)
		case 1:
			k := vInt("rk")
			b.RemoveForward(k)
			m.removeForward(k)
			args = append(args, k)
		case 2:
			v := vInt("rv")
			b.RemoveReverse(v)
			m.removeReverse(v)
			args = append(args, v)
		}
	}
	vAssert(b.Len() == m.size(), "phases: Len is the number of pairs")
	probe := func(x int) {
		ev, eok := m.forward(x)
		gv, gok := b.GetForward(x)
		ek, erok := m.reverse(x)
		gk, grok := b.GetReverse(x)
		// (one verification condition per probe: the four facts are asserted together)
		vAssert(vAnd(vAnd(gok == eok, vImplies(eok, gv == ev)), vAnd(grok == erok, vImplies(erok, gk == ek))),
			"phases: GetForward / GetReverse find exactly the live pairs and return the paired value / key")
		if gok {
			k2, ok2 := b.GetReverse(gv)
			vAssert(ok2 && k2 == x, "phases: GetForward(k)=(v,true) implies GetReverse(v)=(k,true)")
		}
		if grok {
			v2, ok2 := b.GetForward(gk)
			vAssert(ok2 && v2 == x, "phases: GetReverse(v)=(k,true) implies GetForward(k)=(v,true)")
		}
	}
	for _, x := range args {
		probe(x)
	}
	// every pair that survived the shrinking, two that did not, and the regrown ones
	// (probing all G removed keys as well would fork once per key on "is the symbolic argument this key")
	lo, hi := 0, keep
	if fromFront {
		lo, hi = g-keep, g
	}
	for i := lo; i < hi; i++ {
		probe(i)
		probe(1000 + i)
	}
	gone := 0
	if !fromFront {
		gone = g - 1
	}
	probe(gone)
	probe(1000 + gone)
	for i := 0; i < 3; i++ {
		probe(2000 + i)
		probe(3000 + i)
	}
	n := 0
	b.Range(func(k, v int) bool {
		n++
		ev, eok := m.forward(k)
		vAssert(eok && ev == v, "phases: Range visits only live pairs")
		return true
	})
	vAssert(n == b.Len(), "phases: Range visits every pair once")
	if keep >= 2 && regrow >= 1 {
		vCover("bimap phases: grow, shrink, grow again")
	}
}

// c11direct is set by the white-box file c11wb.go (when it compiles against the tree): it places
// the given pairs directly in Bimap's two maps. Without it pre-states are built with Add.
var c11direct func(b *Bimap[int, int], ks, vs []int)

// c11pre builds an arbitrary valid Bimap of n pairs (pairwise distinct keys and values).
func c11pre() (*Bimap[int, int], *c11model) {
	m := &c11model{}
	b := &Bimap[int, int]{}
	direct := c11direct != nil && vParam("API") == 0
	n := vChoose("n", vParam("N")+1)
	if n == 0 {
		if vChoose("zero", 2) == 1 {
			if direct {
				c11direct(b, nil, nil) // allocated but empty maps
			} else {
				b.Add(0, 0) // black-box way to an allocated, empty Bimap
				b.RemoveForward(0)
			}
		}
		return b, m
	}
	for i := 0; i < n; i++ {
		k, v := vInt("k"), vInt("v")
		for j := range m.ks {
			vAssume(k != m.ks[j])
			vAssume(v != m.vs[j])
		}
		m.ks, m.vs, m.alive = append(m.ks, k), append(m.vs, v), append(m.alive, true)
	}
	if direct {
		c11direct(b, m.ks, m.vs)
	} else {
		for i := range m.ks {
			b.Add(m.ks[i], m.vs[i]) // pairwise distinct keys and values: nothing is evicted
		}
	}
	return b, m
}

func VHBimapStep() {
	b, m := c11pre()
	pk, pv := vInt("pk"), vInt("pv")
	c11check(b, m, pk, pv, "pre-state")
	op := vChoose("op", 4)
	post := c11op(b, m, op)
	c11check(b, m, pk, pv, "after the operation")
	post()
	if len(m.ks) >= 3 && op == 0 {
		vCover("bimap: Add on >= 2 pairs")
	}
}

func VHBimapCloneRange() {
	b, m := c11pre()
	pk, pv := vInt("pk"), vInt("pv")
	n := len(m.ks)
	if vChoose("which", 2) == 0 {
		c := b.Clone()
		c11check(&c, m, pk, pv, "Clone has the same pairs")
		c.Add(vInt("ck"), vInt("cv"))
		if n > 0 {
			c.RemoveForward(m.ks[0])
		}
		c11check(b, m, pk, pv, "modifying the clone leaves the original unchanged")
		b.Add(vInt("bk"), vInt("bv"))
		vCover("bimap: clone")
		return
	}
	stop := vChoose("stop", n+2) // stop after this many callbacks (n+1: never)
	// optionally the callback itself reads the map - lookups and a complete nested Range - during
	// its nestAt-th invocation: read-only re-entrancy must not disturb the outer iteration
	nestAt := vChoose("nestAt", n+1) // 0: never
	var seenK, seenV []int
	calls := 0
	b.Range(func(k, v int) bool {
		calls++
		seenK, seenV = append(seenK, k), append(seenV, v)
		if calls == nestAt {
			inner := 0
			var innerK []int
			b.Range(func(k2, v2 int) bool {
				inner++
				ev, eok := m.forward(k2)
				vAssert(eok && ev == v2, "nested Range visits only pairs of the map")
				for _, x := range innerK {
					vAssert(x != k2, "nested Range visits every pair at most once")
				}
				innerK = append(innerK, k2)
				return true
			})
			vAssert(inner == n, "a Range nested inside a Range callback visits every pair")
			gv, ok := b.GetForward(k)
			vAssert(ok && gv == v, "lookups inside a Range callback see the pair being visited")
			if n >= 2 {
				vCover("bimap: nested range on >= 2 pairs")
			}
		}
		return calls < stop
	})
	want := n
	if stop < n {
		want = stop
		if stop == 0 {
			want = 1 // the callback is invoked before it can refuse
		}
	}
	if n == 0 {
		want = 0
	}
	vAssert(calls == want, "Range stops as soon as the callback returns false, else visits every pair")
	for i := range seenK {
		ev, eok := m.forward(seenK[i])
		vAssert(eok && ev == seenV[i], "Range visits only pairs of the map")
		for j := 0; j < i; j++ {
			vAssert(seenK[j] != seenK[i], "Range visits every pair at most once")
		}
	}
	c11check(b, m, pk, pv, "Range does not modify the map")
	if calls >= 2 {
		vCover("bimap: range >= 2 calls")
	}
}
