package sync2

import "sync/atomic"

// C09 — keyed mutexes give per-key mutual exclusion and cross-key independence.

func c09keys() []int {
	u := make([]int, 2)
	u[0], u[1] = vInt("key"), vInt("key")
	vAssume(u[0] != u[1])
	return u
}

// VHKeyedExcl: T goroutines lock a key each (same or different), enter, leave, unlock.
func VHKeyedExcl() {
	keys := c09keys()
	var km KeyedMutex[int]
	occ := make([]int, len(keys))
	switch vChoose("warm", 3) {
	case 1: // key 0 already used (and promoted to the read map of the underlying Map)
		km.LockKey(keys[0])
		km.UnlockKey(keys[0])
	case 2: // ... and cleared again while idle
		km.LockKey(keys[0])
		km.UnlockKey(keys[0])
		km.ClearKey(keys[0])
		vCover("keyed: cleared idle key")
	}
	nt := vParam("T")
	same := false
	picks := make([]int, nt)
	for t := 0; t < nt; t++ {
		picks[t] = vChoose("k", len(keys))
		for u := 0; u < t; u++ {
			if picks[u] == picks[t] {
				same = true
			}
		}
	}
	for t := 0; t < nt; t++ {
		k := picks[t]
		vGo(func() {
			km.LockKey(keys[k])
			occ[k]++
			vYield()
			vAssert(occ[k] == 1, "at most one goroutine is between LockKey(k) and UnlockKey(k)")
			occ[k]--
			km.UnlockKey(keys[k])
		})
	}
	vAssert(vWait(), "every LockKey eventually returns when holders unlock")
	if same {
		vCover("keyed: two goroutines on the same key")
	}
}

// VHKeyedRW: readers count any, a writer is alone.
func VHKeyedRW() {
	keys := c09keys()
	var km KeyedRWMutex[int]
	var readers, writers [2]int32
	nt := vParam("T")
	for t := 0; t < nt; t++ {
		k := vChoose("k", len(keys))
		write := vChoose("write", 2) == 1
		vGo(func() {
			if write {
				km.LockKey(keys[k])
				atomic.AddInt32(&writers[k], 1)
				vAssert(atomic.LoadInt32(&readers[k]) == 0, "no reader is inside while a writer holds the key")
				vAssert(atomic.LoadInt32(&writers[k]) == 1, "a writer is alone")
				atomic.AddInt32(&writers[k], -1)
				km.UnlockKey(keys[k])
			} else {
				km.RLockKey(keys[k])
				atomic.AddInt32(&readers[k], 1)
				vAssert(atomic.LoadInt32(&writers[k]) == 0, "no writer is inside while a reader holds the key")
				if atomic.LoadInt32(&readers[k]) == 2 {
					vCover("keyedrw: two readers inside together")
				}
				atomic.AddInt32(&readers[k], -1)
				km.RUnlockKey(keys[k])
			}
		})
	}
	vAssert(vWait(), "every lock acquisition eventually returns")
}

// VHKeyedReaders: any number of readers may be inside together: two readers rendezvous while
// both hold the read lock (impossible if RLockKey excluded other readers).
func VHKeyedReaders() {
	keys := c09keys()
	var kr KeyedRWMutex[int]
	c := make(chan int)
	vGo(func() {
		kr.RLockKey(keys[0])
		<-c
		kr.RUnlockKey(keys[0])
	})
	vGo(func() {
		kr.RLockKey(keys[0])
		c <- 1
		kr.RUnlockKey(keys[0])
	})
	vAssert(vWait(), "any number of goroutines may be between RLockKey(k) and RUnlockKey(k) together")
	// afterwards a writer gets in
	vAssert(kr.TryLockKey(keys[0]), "the key is free again after both readers left")
	vCover("keyed readers done")
}

// VHKeyedClear: ClearKey of an idle key, concurrent with other goroutines working on other
// keys, must not disturb them: a held key stays held (TryLockKey fails), mutual exclusion
// on it is preserved.
func VHKeyedClear() {
	keys := c09keys()
	idle := vInt("idle")
	vAssume(idle != keys[0])
	vAssume(idle != keys[1])
	var km KeyedMutex[int]
	occ := 0
	if vChoose("warmIdle", 2) == 1 {
		km.LockKey(idle)
		km.UnlockKey(idle)
	}
	km.LockKey(keys[0]) // held by the main goroutine throughout
	vGo(func() { km.ClearKey(idle) })
	vGo(func() {
		if km.TryLockKey(keys[0]) {
			occ++
			vAssert(false, "TryLockKey fails while the key is held - a concurrent ClearKey of another, idle key does not change that")
		}
	})
	if vChoose("third", 2) == 1 {
		vGo(func() {
			km.LockKey(keys[1])
			km.UnlockKey(keys[1])
		})
	}
	vAssert(vWait(), "no call blocks")
	vAssert(!km.TryLockKey(keys[0]), "the held key is still held after the other goroutines finished")
	km.UnlockKey(keys[0])
	vAssert(km.TryLockKey(keys[0]), "and free again after UnlockKey")
	_ = occ
	vCover("keyed clear done")
}

// VHKeyedIndep: a goroutine holding key a forever never delays key b.
func VHKeyedIndep() {
	keys := c09keys()
	rw := vChoose("rw", 2) == 1
	var km KeyedMutex[int]
	var kr KeyedRWMutex[int]
	vGo(func() {
		if rw {
			if vChoose("holdread", 2) == 1 {
				kr.RLockKey(keys[0])
			} else {
				kr.LockKey(keys[0])
			}
		} else {
			km.LockKey(keys[0])
		}
	})
	vGo(func() {
		if rw {
			kr.LockKey(keys[1])
			kr.UnlockKey(keys[1])
			kr.RLockKey(keys[1])
			kr.RUnlockKey(keys[1])
		} else {
			km.LockKey(keys[1])
			km.UnlockKey(keys[1])
		}
	})
	vAssert(vWait(), "holding or waiting for one key never delays an acquisition of a different key")
	vCover("keyed indep done")
}

// VHKeyedTry: Try* never block, hold the lock when they return true, fail while the key is
// held incompatibly, succeed when the key is free and uncontended.
func VHKeyedTry() {
	keys := c09keys()
	rw := vChoose("rw", 2) == 1
	var km KeyedMutex[int]
	var kr KeyedRWMutex[int]
	// uncontended
	if rw {
		vAssert(kr.TryLockKey(keys[0]), "TryLockKey succeeds on a free key")
		vAssert(!kr.TryLockKey(keys[0]), "TryLockKey fails while the key is write-held")
		vAssert(!kr.TryRLockKey(keys[0]), "TryRLockKey fails while the key is write-held")
		vAssert(kr.TryLockKey(keys[1]), "TryLockKey on another key is unaffected")
		kr.UnlockKey(keys[0])
		vAssert(kr.TryRLockKey(keys[0]), "TryRLockKey succeeds on a free key")
		vAssert(kr.TryRLockKey(keys[0]), "TryRLockKey succeeds while only readers hold the key")
		vAssert(!kr.TryLockKey(keys[0]), "TryLockKey fails while readers hold the key")
		kr.RUnlockKey(keys[0])
		kr.RUnlockKey(keys[0])
		vAssert(kr.TryLockKey(keys[0]), "TryLockKey succeeds again once the readers left")
	} else {
		vAssert(km.TryLockKey(keys[0]), "TryLockKey succeeds on a free key")
		vAssert(!km.TryLockKey(keys[0]), "TryLockKey fails while the key is held")
		vAssert(km.TryLockKey(keys[1]), "TryLockKey on another key is unaffected")
		km.UnlockKey(keys[0])
		vAssert(km.TryLockKey(keys[0]), "TryLockKey succeeds again after UnlockKey")
	}
	// contended: two goroutines try the same fresh key, successes exclude each other
	var km2 KeyedMutex[int]
	inside := 0
	wins := 0
	for t := 0; t < 2; t++ {
		vGo(func() {
			if km2.TryLockKey(keys[0]) {
				inside++
				wins++
				vYield()
				vAssert(inside == 1, "a successful TryLockKey holds the lock exclusively")
				inside--
				km2.UnlockKey(keys[0])
			}
		})
	}
	vAssert(vWait(), "TryLockKey never blocks")
	// a try call on a fresh key racing with a LockKey whose holder never unlocks: it must return
	var km3 KeyedMutex[int]
	var kr3 KeyedRWMutex[int]
	variant := vChoose("neverblock", 3)
	vGo(func() {
		if variant == 0 {
			km3.LockKey(keys[1])
		} else {
			kr3.LockKey(keys[1])
		}
	})
	vGo(func() {
		// (a successful try is released again, so that only the try call itself could block)
		switch variant {
		case 0:
			if km3.TryLockKey(keys[1]) {
				km3.UnlockKey(keys[1])
			}
		case 1:
			if kr3.TryLockKey(keys[1]) {
				kr3.UnlockKey(keys[1])
			}
		case 2:
			if kr3.TryRLockKey(keys[1]) {
				kr3.RUnlockKey(keys[1])
			}
		}
	})
	vAssert(vWait(), "TryLockKey/TryRLockKey never block, even while the key is being taken for the first time by a holder that keeps it")
	vCover("keyed try done")
}

// VHKeyedPhases: two rounds of simultaneous first use. Round one: two goroutines use the
// never-seen key k0 at once (so one of them loses the race to install its lock). Round two,
// after quiescence: two goroutines use two further never-seen keys k1 and k2 at once; the
// first keeps k1 locked for good, the second must still get k2 - whatever round one left
// behind must not tie different keys together.
func VHKeyedPhases() {
	keys := c09keys()
	k2 := vInt("key")
	vAssume(k2 != keys[0])
	vAssume(k2 != keys[1])
	rw := vChoose("rw", 2) == 1
	var km KeyedMutex[int]
	var kr KeyedRWMutex[int]
	inside := 0
	for t := 0; t < 2; t++ {
		vGo(func() {
			if rw {
				kr.LockKey(keys[0])
			} else {
				km.LockKey(keys[0])
			}
			inside++
			vAssert(inside == 1, "phases: at most one goroutine holds k0")
			inside--
			if rw {
				kr.UnlockKey(keys[0])
			} else {
				km.UnlockKey(keys[0])
			}
		})
	}
	vAssert(vWait(), "phases: both first users of k0 get through")
	got := false
	vGo(func() {
		if rw {
			kr.LockKey(keys[1])
		} else {
			km.LockKey(keys[1])
		}
	})
	vGo(func() {
		if rw {
			got = kr.TryRLockKey(k2)
		} else {
			got = km.TryLockKey(k2)
		}
	})
	vAssert(vWait(), "phases: first use of two different keys at once never blocks")
	vAssert(got, "phases: TryLockKey of a never-seen key succeeds while only another key is held")
	if rw {
		vAssert(!kr.TryLockKey(keys[1]), "phases: k1 is still held")
		vAssert(kr.TryLockKey(keys[0]), "phases: k0 is free again")
	} else {
		vAssert(!km.TryLockKey(keys[1]), "phases: k1 is still held")
		vAssert(km.TryLockKey(keys[0]), "phases: k0 is free again")
	}
	vCover("keyed phases done")
}

// VHKeyedClearWaiter: key a is held and a second goroutine waits for it; meanwhile an idle key
// is cleared and a third key is acquired. Neither the ClearKey of the idle key nor the
// acquisition of the third key may be delayed by the goroutine that waits for a.
func VHKeyedClearWaiter() {
	keys := c09keys()
	idle := vInt("idle")
	vAssume(idle != keys[0])
	vAssume(idle != keys[1])
	rw := vChoose("rw", 2) == 1
	var km KeyedMutex[int]
	var kr KeyedRWMutex[int]
	if vChoose("warmIdle", 2) == 1 {
		if rw {
			kr.LockKey(idle)
			kr.UnlockKey(idle)
		} else {
			km.LockKey(idle)
			km.UnlockKey(idle)
		}
	}
	// the main goroutine holds a throughout the first round
	if rw {
		kr.LockKey(keys[0])
	} else {
		km.LockKey(keys[0])
	}
	waiterIn := false
	vGo(func() { // thread 1: waits for a
		if rw {
			if vChoose("waitRead", 2) == 1 {
				kr.RLockKey(keys[0])
				waiterIn = true
				kr.RUnlockKey(keys[0])
			} else {
				kr.LockKey(keys[0])
				waiterIn = true
				kr.UnlockKey(keys[0])
			}
		} else {
			km.LockKey(keys[0])
			waiterIn = true
			km.UnlockKey(keys[0])
		}
	})
	vGo(func() { // thread 2
		if rw {
			kr.ClearKey(idle)
		} else {
			km.ClearKey(idle)
		}
	})
	got := false
	try := vChoose("try", 2) == 1
	vGo(func() { // thread 3: another key
		if rw {
			if try {
				got = kr.TryRLockKey(keys[1])
			} else {
				kr.LockKey(keys[1])
				got = true
			}
		} else {
			if try {
				got = km.TryLockKey(keys[1])
			} else {
				km.LockKey(keys[1])
				got = true
			}
		}
	})
	vWait()
	vAssert(!waiterIn, "nobody enters a held key")
	vAssert(vThreadDone(1), "ClearKey of an idle key is not delayed by a goroutine waiting for another key")
	vAssert(vThreadDone(2), "an acquisition of a different key is not delayed by a goroutine waiting for a held key")
	if vThreadDone(2) {
		vAssert(got, "an acquisition of a free, different key succeeds while another key is held and awaited")
	}
	if rw {
		kr.UnlockKey(keys[0])
	} else {
		km.UnlockKey(keys[0])
	}
	vAssert(vWait(), "the waiter gets the key once it is released")
	vAssert(waiterIn, "the waiter entered after the release")
	vCover("keyed clear with a waiter done")
}
