package sync2

// C04 — sync2.Map is linearizable to an ordinary map.
// Sequential part: canned prefixes put the map into each internal layout (dirty-only key,
// promoted key, deleted entry in the read map, expunged entry, mixed), then k operations of
// symbolic kind on a small universe of distinct symbolic keys with symbolic values are
// compared call by call with a plain Go map.

type c04m struct {
	m      *Map[int, int]
	model  map[int]int
	keys   []int
	layout int
}

func c04keys(n int) []int {
	u := make([]int, n)
	for i := range u {
		u[i] = vInt("key")
		for j := 0; j < i; j++ {
			vAssume(u[i] != u[j])
		}
	}
	return u
}

func (s *c04m) store(k, v int) { s.m.Store(k, v); s.model[k] = v }
func (s *c04m) del(k int)      { s.m.Delete(k); delete(s.model, k) }
func (s *c04m) promote() {
	if vChoose("promoteBy", 2) == 0 {
		s.m.Range(func(int, int) bool { return true })
	} else {
		s.m.Load(s.keys[0]) // a miss on a dirty-only key promotes once misses reach len(dirty)
	}
}

func (s *c04m) prefix() {
	x, y := s.keys[0], s.keys[1]
	s.layout = vChoose("layout", 7)
	switch s.layout {
	case 0:
	case 6: // x promoted by a miss (missLocked)
		s.store(x, vInt("pv"))
		s.m.Load(x)
	case 1: // x only in the dirty map
		s.store(x, vInt("pv"))
	case 2: // x promoted to the read map
		s.store(x, vInt("pv"))
		s.promote()
	case 3: // x deleted while in the read map: entry.p == nil
		s.store(x, vInt("pv"))
		s.promote()
		s.del(x)
	case 4: // x expunged: deleted, then dirty re-created for y
		s.store(x, vInt("pv"))
		s.promote()
		s.del(x)
		s.store(y, vInt("pv"))
		vCover("prefix: expunged entry")
	case 5: // x in read, y only in dirty
		s.store(x, vInt("pv"))
		s.promote()
		s.store(y, vInt("pv"))
	}
}

func (s *c04m) op(what string) {
	vMapOrder(true)
	defer vMapOrder(false)
	nk := len(s.keys)
	o := vChoose("op", 5*nk+1)
	if o == 5*nk {
		// Range: exactly the model's live pairs, each key once
		var ks, vs []int
		s.m.Range(func(k, v int) bool {
			ks, vs = append(ks, k), append(vs, v)
			return true
		})
		vMapOrder(false)
		vAssert(len(ks) == len(s.model), what+"Range visits every live key exactly once (count)")
		for i := range ks {
			mv, ok := s.model[ks[i]]
			vAssert(ok, what+"Range visits only live keys")
			vAssert(vs[i] == mv, what+"Range passes the current value")
			for j := 0; j < i; j++ {
				vAssert(ks[j] != ks[i], what+"Range visits no key twice")
			}
		}
		return
	}
	k := s.keys[o%nk]
	mv, mok := s.model[k]
	switch o / nk {
	case 0:
		v, ok := s.m.Load(k)
		vAssert(ok == mok, what+"Load reports presence like a map")
		vAssert(v == mv, what+"Load returns the last stored value (zero if absent)")
	case 1:
		v := vInt("v")
		s.m.Store(k, v)
		s.model[k] = v
	case 2:
		v := vInt("v")
		act, loaded := s.m.LoadOrStore(k, v)
		vAssert(loaded == mok, what+"LoadOrStore reports loaded exactly when the key was present")
		if mok {
			vAssert(act == mv, what+"LoadOrStore returns the existing value")
		} else {
			vAssert(act == v, what+"LoadOrStore returns the stored value")
			s.model[k] = v
		}
	case 3:
		v, loaded := s.m.LoadAndDelete(k)
		vAssert(loaded == mok, what+"LoadAndDelete reports presence like a map")
		vAssert(v == mv, what+"LoadAndDelete returns the deleted value (zero if absent)")
		delete(s.model, k)
	case 4:
		s.m.Delete(k)
		delete(s.model, k)
	}
}

func (s *c04m) agree(what string) {
	for _, k := range s.keys {
		v, ok := s.m.Load(k)
		mv, mok := s.model[k]
		vAssert(ok == mok, what+"every key is present exactly when the model says so")
		vAssert(v == mv, what+"every key holds the last value stored")
	}
}

// layoutCovers: vacuity witnesses for the internal layouts the canned prefixes are meant to
// produce. They are derived from the prefix that ran (what sync.Map's algorithm does with that
// history), not read from the Map's fields, so the harness does not depend on the representation.
func (s *c04m) layoutCovers() {
	switch s.layout {
	case 5:
		vCover("state: read map amended (dirty holds extra keys)")
	case 2:
		vCover("state: promoted, no dirty map")
	case 4:
		vCover("state: expunged entry")
	case 3:
		vCover("state: nil entry in read map")
	}
}

func VHMapHist() {
	vMapOrder(false)
	s := &c04m{m: &Map[int, int]{}, model: map[int]int{}, keys: c04keys(vParam("KEYS"))}
	s.prefix()
	k := vParam("K")
	for i := 0; i < k; i++ {
		if i == 0 {
			s.layoutCovers()
		}
		s.op("history: ")
	}
	s.agree("final: ")
	// a probe key outside the universe is absent
	p := vInt("probe")
	for _, kk := range s.keys {
		vAssume(p != kk)
	}
	_, ok := s.m.Load(p)
	vAssert(!ok, "a key never stored is absent")
}
