package sync2

// C18 with many idle items: NP (70, thorough 600) tokens are Put into one Pool without a Get
// in between - first in one go, then in waves with Gets in between - so that free lists,
// batches and spill-over thresholds inside the Pool are passed; then they are taken out again.
// Every Get must return a token that was Put and is not held by anybody (a token handed out
// twice is held twice), or - once the Pool is empty - a fresh result of New / the zero value.
// The underlying sync.Pool is modelled as handing back its newest item here (the run is about
// the bookkeeping around it, not about its freedom to drop or reorder).
func VHPoolMany() {
	n := vParam("NP")
	withNew := vChoose("withNew", 2) == 1
	p := &Pool[*c18tok]{}
	fresh := 0
	if withNew {
		p.New = func() *c18tok { fresh++; return &c18tok{id: -fresh} }
	}
	toks := make([]*c18tok, n)
	for i := range toks {
		toks[i] = &c18tok{id: i + 1}
	}
	idle := map[*c18tok]bool{}
	put := func(t *c18tok) {
		vAssert(t.held, "many pooled items: (harness) only held tokens are put back")
		t.held = false
		idle[t] = true
		p.Put(t)
	}
	get := func() *c18tok {
		g := p.Get()
		if g == nil {
			vAssert(!withNew, "many pooled items: Get returns nil only when New is nil")
			return nil
		}
		if g.id < 0 {
			vAssert(withNew && !g.held, "many pooled items: a fresh value comes from New")
			g.held = true
			return g
		}
		vAssert(idle[g], "many pooled items: Get returns a value that was Put and not handed out since")
		vAssert(!g.held, "many pooled items: a value is never held by two Get callers at once")
		idle[g] = false
		g.held = true
		return g
	}
	for _, t := range toks {
		t.held = true
	}
	wave := []int{n, 33, 17, 1}[vChoose("wave", 4)]
	var out []*c18tok
	for i := 0; i < n; {
		for k := 0; k < wave && i < n; k, i = k+1, i+1 {
			put(toks[i])
		}
		for k := 0; k < wave/2; k++ {
			if g := get(); g != nil {
				out = append(out, g)
			}
		}
	}
	for k := 0; k < n+2; k++ {
		if g := get(); g != nil {
			out = append(out, g)
		}
	}
	// nobody is held twice: every token in out is distinct
	seen := map[*c18tok]bool{}
	for _, g := range out {
		vAssert(!seen[g], "many pooled items: no value was handed out twice")
		seen[g] = true
	}
	// put everything back and take it out once more
	for _, g := range out {
		put(g)
	}
	for k := 0; k < len(out); k++ {
		get()
	}
	vCover("pool many done")
}
