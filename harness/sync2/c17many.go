package sync2

// C17 with many callers: NT (300, thorough 1200) goroutines call Do on one Once1/Once2/Once3
// while the one invocation is still running (it waits for a gate the harness opens only once
// everybody is parked), so that waiter counts pass 255 and anything packed into narrow fields
// overflows. Nobody may return before the invocation has completed; afterwards everybody
// returns its values and exactly one function has run. One fixed schedule (each goroutine runs
// until it parks, lowest id first): the run is about the number of waiters, the interleavings
// are explored by the small entries.
func VHOnceMany() {
	nt := vParam("NT")
	arity := vChoose("arity", 3)
	var o1 Once1[int]
	var o2 Once2[int, int]
	var o3 Once3[int, int, int]
	gate := make(chan struct{})
	calls, done := 0, false
	r1, r2, r3 := vInt("r"), vInt("r"), vInt("r")
	res := make([][3]int, nt)
	returned := make([]bool, nt)
	for t := 0; t < nt; t++ {
		t := t
		vGo(func() {
			switch arity {
			case 0:
				res[t][0] = o1.Do(func() int { calls++; <-gate; done = true; return r1 })
			case 1:
				res[t][0], res[t][1] = o2.Do(func() (int, int) { calls++; <-gate; done = true; return r1, r2 })
			case 2:
				res[t][0], res[t][1], res[t][2] = o3.Do(func() (int, int, int) { calls++; <-gate; done = true; return r1, r2, r3 })
			}
			vAssert(done, "many callers: Do returns only after the one invocation has completed")
			returned[t] = true
		})
	}
	vAssert(!vWait(), "many callers: while the one invocation is running the callers wait")
	for t := range returned {
		vAssert(!returned[t], "many callers: nobody returns while the one invocation is running")
	}
	vAssert(calls == 1, "many callers: one function has been started")
	close(gate)
	vAssert(vWait(), "many callers: every Do call returns once the invocation has completed")
	vAssert(calls == 1, "many callers: exactly one of the functions is invoked, exactly once")
	for t := range res {
		vAssert(returned[t], "many callers: every Do call returns")
		vAssert(res[t][0] == r1, "many callers: every Do call returns the values the one invocation returned")
		if arity >= 1 {
			vAssert(res[t][1] == r2, "many callers: every Do call returns the values the one invocation returned")
		}
		if arity == 2 {
			vAssert(res[t][2] == r3, "many callers: every Do call returns the values the one invocation returned")
		}
	}
	vCover("once many done")
}

// VHOnceManyValues: NV (200, thorough 2000) Once values one after the other in one process, each
// with a slow winner and a second caller that arrives while the winner's function runs - so
// that anything shared between Once values (pooled gates, arenas, free lists of waiter records)
// is recycled many times over. Every round: the second caller waits, then both return the
// winner's value; the second caller's function never runs.
func VHOnceManyValues() {
	nv := vParam("NV")
	arity := vChoose("arity", 3)
	for round := 0; round < nv; round++ {
		var o1 Once1[int]
		var o2 Once2[int, int]
		var o3 Once3[int, int, int]
		gate := make(chan struct{})
		calls, done := 0, false
		want := 1000 + round
		var res [2]int
		var ret [2]bool
		for c := 0; c < 2; c++ {
			c := c
			vGo(func() {
				switch arity {
				case 0:
					res[c] = o1.Do(func() int { calls++; <-gate; done = true; return want })
				case 1:
					res[c], _ = o2.Do(func() (int, int) { calls++; <-gate; done = true; return want, 0 })
				case 2:
					res[c], _, _ = o3.Do(func() (int, int, int) { calls++; <-gate; done = true; return want, 0, 0 })
				}
				vAssert(done, "many Once values: Do returns only after the one invocation has completed")
				ret[c] = true
			})
		}
		vAssert(!vWait() && !ret[0] && !ret[1], "many Once values: both callers wait while the invocation runs")
		vAssert(calls == 1, "many Once values: one function has been started")
		close(gate)
		vAssert(vWait() && ret[0] && ret[1], "many Once values: both callers return once it has completed")
		vAssert(calls == 1 && res[0] == want && res[1] == want, "many Once values: both get the one invocation's value")
	}
	vCover("once many values done")
}

type c17err struct{ code int }

func (e *c17err) Error() string { return "c17" }

// VHOnceResultTypes: the result types are the caller's business - an error, a nil or non-nil
// pointer, an interface, a struct, a zero value: whatever the one invocation returns (a non-nil
// error included) is what every caller gets, and no second function runs. Instantiations:
// Once1[error], Once2[int, error], Once3[string, *int, error], Once1[any], Once1[struct].
func VHOnceResultTypes() {
	fail := vChoose("fail", 2) == 1 // the one invocation returns a non-nil error
	var e error
	if fail {
		e = &c17err{vInt("code")}
	}
	x := vInt("x")
	calls := 0
	switch vChoose("inst", 5) {
	case 0:
		var o Once1[error]
		r1 := o.Do(func() error { calls++; return e })
		r2 := o.Do(func() error { calls++; return nil })
		var got [2]error
		for i := range got {
			i := i
			vGo(func() { got[i] = o.Do(func() error { calls++; return &c17err{-1} }) })
		}
		vAssert(vWait(), "result types: every Do call returns")
		vAssert(r1 == e && r2 == e && got[0] == e && got[1] == e, "result types: every Do call returns the error the one invocation returned")
	case 1:
		var o Once2[int, error]
		a1, e1 := o.Do(func() (int, error) { calls++; return x, e })
		a2, e2 := o.Do(func() (int, error) { calls++; return x + 1, nil })
		var ga [2]int
		var ge [2]error
		for i := range ga {
			i := i
			vGo(func() { ga[i], ge[i] = o.Do(func() (int, error) { calls++; return -1, nil }) })
		}
		vAssert(vWait(), "result types: every Do call returns")
		vAssert(a1 == x && e1 == e && a2 == x && e2 == e, "result types: a later Do returns the first invocation's value and error")
		vAssert(ga[0] == x && ge[0] == e && ga[1] == x && ge[1] == e, "result types: concurrent later callers too")
	case 2:
		var o Once3[string, *int, error]
		p := &x
		if fail {
			p = nil
		}
		s1, p1, e1 := o.Do(func() (string, *int, error) { calls++; return "v", p, e })
		s2, p2, e2 := o.Do(func() (string, *int, error) { calls++; return "w", &x, nil })
		vAssert(s1 == "v" && p1 == p && e1 == e && s2 == "v" && p2 == p && e2 == e, "result types: three results of mixed types are shared")
	case 3:
		var o Once1[any]
		var v any
		if !fail {
			v = x
		}
		r1 := o.Do(func() any { calls++; return v })
		r2 := o.Do(func() any { calls++; return "other" })
		vAssert(r1 == v && r2 == v, "result types: an interface result (nil included) is shared")
	case 4:
		var o Once1[c17err]
		r1 := o.Do(func() c17err { calls++; return c17err{x} })
		r2 := o.Do(func() c17err { calls++; return c17err{x + 1} })
		vAssert(r1 == c17err{x} && r2 == c17err{x}, "result types: a struct result is shared")
	}
	vAssert(calls == 1, "result types: exactly one of the functions is invoked, exactly once")
	vCover("once result types done")
}
