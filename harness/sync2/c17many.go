package sync2

// C17 with many callers: NT (300, thorough 1200) goroutines call Do on one Once1/Once2/Once3
// while the one invocation is still running (it waits for a gate the harness opens only once
// everybody is parked), so that waiter counts pass 255 and anything packed into narrow fields
// overflows. Nobody may return before the invocation has completed; afterwards everybody
// returns its values and exactly one function has run. One fixed schedule (each goroutine runs
// until it parks, lowest id first): the run is about the number of waiters, the interleavings
// are explored by the small entries.
func VHOnceMany() {
	nt := vParam("NT")
	arity := vChoose("arity", 3)
	var o1 Once1[int]
	var o2 Once2[int, int]
	var o3 Once3[int, int, int]
	gate := make(chan struct{})
	calls, done := 0, false
	r1, r2, r3 := vInt("r"), vInt("r"), vInt("r")
	res := make([][3]int, nt)
	returned := make([]bool, nt)
	for t := 0; t < nt; t++ {
		t := t
		vGo(func() {
			switch arity {
			case 0:
				res[t][0] = o1.Do(func() int { calls++; <-gate; done = true; return r1 })
			case 1:
				res[t][0], res[t][1] = o2.Do(func() (int, int) { calls++; <-gate; done = true; return r1, r2 })
			case 2:
				res[t][0], res[t][1], res[t][2] = o3.Do(func() (int, int, int) { calls++; <-gate; done = true; return r1, r2, r3 })
			}
			vAssert(done, "many callers: Do returns only after the one invocation has completed")
			returned[t] = true
		})
	}
	vAssert(!vWait(), "many callers: while the one invocation is running the callers wait")
	for t := range returned {
		vAssert(!returned[t], "many callers: nobody returns while the one invocation is running")
	}
	vAssert(calls == 1, "many callers: one function has been started")
	close(gate)
	vAssert(vWait(), "many callers: every Do call returns once the invocation has completed")
	vAssert(calls == 1, "many callers: exactly one of the functions is invoked, exactly once")
	for t := range res {
		vAssert(returned[t], "many callers: every Do call returns")
		vAssert(res[t][0] == r1, "many callers: every Do call returns the values the one invocation returned")
		if arity >= 1 {
			vAssert(res[t][1] == r2, "many callers: every Do call returns the values the one invocation returned")
		}
		if arity == 2 {
			vAssert(res[t][2] == r3, "many callers: every Do call returns the values the one invocation returned")
		}
	}
	vCover("once many done")
}

// VHOnceManyValues: NV (200, thorough 2000) Once values one after the other in one process, each
// with a slow winner and a second caller that arrives while the winner's function runs - so
// that anything shared between Once values (pooled gates, arenas, free lists of waiter records)
// is recycled many times over. Every round: the second caller waits, then both return the
// winner's value; the second caller's function never runs.
func VHOnceManyValues() {
	nv := vParam("NV")
	arity := vChoose("arity", 3)
	for round := 0; round < nv; round++ {
		var o1 Once1[int]
		var o2 Once2[int, int]
		var o3 Once3[int, int, int]
		gate := make(chan struct{})
		calls, done := 0, false
		want := 1000 + round
		var res [2]int
		var ret [2]bool
		for c := 0; c < 2; c++ {
			c := c
			vGo(func() {
				switch arity {
				case 0:
					res[c] = o1.Do(func() int { calls++; <-gate; done = true; return want })
				case 1:
					res[c], _ = o2.Do(func() (int, int) { calls++; <-gate; done = true; return want, 0 })
				case 2:
					res[c], _, _ = o3.Do(func() (int, int, int) { calls++; <-gate; done = true; return want, 0, 0 })
				}
				vAssert(done, "many Once values: Do returns only after the one invocation has completed")
				ret[c] = true
			})
		}
		vAssert(!vWait() && !ret[0] && !ret[1], "many Once values: both callers wait while the invocation runs")
		vAssert(calls == 1, "many Once values: one function has been started")
		close(gate)
		vAssert(vWait() && ret[0] && ret[1], "many Once values: both callers return once it has completed")
		vAssert(calls == 1 && res[0] == want && res[1] == want, "many Once values: both get the one invocation's value")
	}
	vCover("once many values done")
}
