package sync2

// Long histories on small sync2 containers (C03, C04, C05, C09): anything a Map, Set or keyed
// mutex counts over its lifetime - tombstones, misses, deferred clean-ups, batched clears - is
// carried far past its thresholds by NCYC (700, thorough 7000) cycles of operations on two to
// four keys, with every call compared with an ordinary map. The key universe is concrete; the
// layout at the start (which keys are in the read-only part, which only in the dirty part) and
// the operation repeated in the cycle are chosen per path; one symbolic key is looked up at the
// end.

func VHMapChurn() {
	vMapOrder(false)
	n := vParam("NCYC")
	m := new(Map[int, int])
	model := map[int]int{}
	store := func(k, v int) { m.Store(k, v); model[k] = v }
	check := func(what string) {
		for k := 0; k < 5; k++ {
			v, ok := m.Load(k)
			want, had := model[k]
			vAssert(ok == had && (!ok || v == want), what+": every Load agrees with an ordinary map")
		}
	}
	// layout: key 1 promoted to the read-only part, key 2 only in the dirty part (or both promoted)
	store(1, 10)
	if vChoose("promoteBy", 2) == 0 {
		m.Range(func(int, int) bool { return true })
	} else {
		m.Load(1)
		m.Load(1)
	}
	store(2, 20)
	if vChoose("layout", 2) == 1 {
		m.Range(func(int, int) bool { return true })
		store(3, 30)
	}
	kind := vChoose("cycle", 4)
	// looking at a key that is only in the dirty part counts as a miss and eventually promotes it:
	// with probe == 0 the cycles leave the layout alone and everything is compared at the end only
	probe := vChoose("probe", 2) == 1
	donly := 2
	for i := 0; i < n; i++ {
		switch kind {
		case 0: // delete and store the same key again
			m.Delete(1)
			delete(model, 1)
			if probe && i%5 == 0 {
				check("long map history")
			}
			if !probe && (i+1)%32 == 0 {
				// between the delete and the store, look at the key that lives only in the dirty
				// part; a new dirty-only key is added straight away, so that the misses never catch
				// up with the size of the dirty part and the layout stays as it is
				v, ok := m.Load(donly)
				vAssert(ok && v == model[donly], "long map history: a key that was never touched is still there after many deletes of another")
				donly = 1000 + i
				store(donly, i)
			}
			store(1, 100+i)
		case 1: // LoadAndDelete / LoadOrStore
			v, ok := m.LoadAndDelete(1)
			vAssert(ok && v == model[1], "long map history: LoadAndDelete returns the present value")
			delete(model, 1)
			act, loaded := m.LoadOrStore(1, 100+i)
			vAssert(!loaded && act == 100+i, "long map history: LoadOrStore stores into the vacated key")
			model[1] = 100 + i
		case 2: // a rotating fourth key comes and goes (dirty-only entries, promoted by misses)
			store(4, i)
			m.Load(4)
			m.Load(4)
			m.Delete(4)
			delete(model, 4)
		case 3: // deletes of absent keys and overwrites
			m.Delete(0)
			store(2, 200+i)
			m.Delete(1)
			delete(model, 1)
			store(1, i)
		}
		if (probe && i%7 == 0) || i+1 == n {
			check("long map history")
		}
	}
	cnt := 0
	m.Range(func(k, v int) bool {
		want, had := model[k]
		vAssert(had && want == v, "long map history: Range reports present pairs only")
		cnt++
		return true
	})
	vAssert(cnt == len(model), "long map history: Range reports every pair")
	x := vRange("x", 0, 6)
	v, ok := m.Load(x)
	want, had := model[x]
	vAssert(ok == had && (!ok || v == want), "long map history: Load of any key agrees at the end")
	vCover("map churn done")
}

func VHSetChurn() {
	vMapOrder(false)
	n := vParam("NCYC")
	s := &Set[int]{}
	model := map[int]bool{}
	check := func(what string) {
		sz := 0
		for k := 0; k < 5; k++ {
			vAssert(s.Has(k) == model[k], what+": Has agrees with the model")
			if model[k] {
				sz++
			}
		}
		vAssert(s.Len() == sz, what+": Len agrees with the model")
	}
	vAssert(s.Add(1), "long set history: Add of a new value succeeds")
	model[1] = true
	if vChoose("promote", 2) == 0 {
		s.Len()
	}
	vAssert(s.Add(2), "long set history: Add of a new value succeeds")
	model[2] = true
	kind := vChoose("cycle", 3)
	probe := vChoose("probe", 2) == 1 // (see VHMapChurn)
	for i := 0; i < n; i++ {
		switch kind {
		case 0:
			vAssert(s.Remove(1), "long set history: Remove of a member succeeds")
			model[1] = false
			vAssert(!s.Has(1), "long set history: the removed value is gone")
			if probe && i%5 == 0 {
				vAssert(s.Has(2), "long set history: the other value stays")
			}
			vAssert(s.Add(1), "long set history: Add after Remove succeeds")
			model[1] = true
			vAssert(s.Has(1), "long set history: an added value is a member")
			vAssert(!s.Add(1), "long set history: a second Add of the same value fails")
		case 1:
			vAssert(s.Add(3), "long set history: Add of a new value succeeds")
			vAssert(s.Has(3), "long set history: an added value is a member")
			vAssert(s.Remove(3) && !s.Remove(3), "long set history: Remove succeeds once")
		case 2:
			b := &Set[int]{}
			b.Add(1)
			b.Add(4)
			vAssert(s.RemoveSet(b) == 1, "long set history: RemoveSet counts the values lost")
			vAssert(s.AddSet(b) == 2, "long set history: AddSet counts the values gained")
			vAssert(s.Remove(4), "long set history: a value gained by AddSet can be removed")
		}
		if (probe && i%7 == 0) || i+1 == n {
			check("long set history")
		}
	}
	other := &Set[int]{}
	other.Add(2)
	other.Add(3)
	vAssert(other.Intersect(s).Len() == 1 && s.Intersect(other).Len() == 1, "long set history: Intersect with an aged set")
	x := vRange("x", 0, 6)
	vAssert(s.Has(x) == model[x], "long set history: Has of any value agrees at the end")
	vCover("set churn done")
}

func VHKeyedChurn() {
	vMapOrder(false)
	n := vParam("NCYC")
	var km KeyedMutex[int]
	var rw KeyedRWMutex[int]
	early := vChoose("early", 2) == 1
	if early {
		// key 1 was used and cleared before it is taken for good
		km.LockKey(1)
		km.UnlockKey(1)
		km.ClearKey(1)
		rw.RLockKey(1)
		rw.RUnlockKey(1)
		rw.ClearKey(1)
	}
	km.LockKey(1)
	rw.RLockKey(1)
	for i := 0; i < n; i++ {
		k := 2 + i%2
		km.LockKey(k)
		vAssert(!km.TryLockKey(k), "long keyed history: a held key cannot be try-locked")
		km.UnlockKey(k)
		km.ClearKey(k)
		rw.LockKey(k)
		rw.UnlockKey(k)
		rw.ClearKey(k)
		if i%9 == 0 || i+1 == n {
			vAssert(!km.TryLockKey(1), "long keyed history: a key held throughout stays held")
			vAssert(!rw.TryLockKey(1), "long keyed history: a key read-held throughout still excludes writers")
			vAssert(rw.TryRLockKey(1), "long keyed history: and still admits readers")
			rw.RUnlockKey(1)
		}
	}
	km.UnlockKey(1)
	vAssert(km.TryLockKey(1), "long keyed history: released at last, the key is free")
	rw.RUnlockKey(1)
	vAssert(rw.TryLockKey(1), "long keyed history: released at last, the key is free for writing")
	vCover("keyed churn done")
}
