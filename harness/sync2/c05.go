package sync2

import "gopkg.in/typ.v4/maps"

// C05 — sync2.Set is an atomic set under concurrent use.

const (
	setAdd = iota
	setRemove
	setHas
	setLen
	setAddSet
	setRemoveSet
	setAddSelf    // s.AddSet(s)
	setRemoveSelf // s.RemoveSet(s)
)

// c05spec: sequential set over the two universe values; membership is concrete per path.
func c05spec(order []*linOp, in [2]bool) bool {
	for _, o := range order {
		switch o.kind {
		case setAdd:
			if o.rok != !in[o.key] {
				return false
			}
			in[o.key] = true
		case setRemove:
			if o.rok != in[o.key] {
				return false
			}
			in[o.key] = false
		case setHas:
			if o.rok != in[o.key] {
				return false
			}
		case setLen:
			n := 0
			for _, b := range in {
				if b {
					n++
				}
			}
			if o.r != n {
				return false
			}
		}
	}
	return true
}

func c05prefix(s *Set[int], u []int) [2]bool {
	var in [2]bool
	// promotion of the dirty map: by a Range (Len) or by a Load miss (Has of a dirty-only value)
	promote := func() {
		if vChoose("promoteBy", 2) == 0 {
			s.Len()
		} else {
			s.Has(u[0])
		}
	}
	switch vChoose("prefix", 7) {
	case 6: // x promoted, y added (dirty map rebuilt, read map amended), then x removed: nil entry present in both maps
		s.Add(u[0])
		promote()
		s.Add(u[1])
		s.Remove(u[0])
		in[1] = true
		vCover("setconc prefix: nil entry in an amended map")
	case 5: // x expunged (deleted, then the dirty map re-created for y)
		s.Add(u[0])
		promote()
		s.Remove(u[0])
		s.Add(u[1])
		in[1] = true
		vCover("setconc prefix: expunged")
	case 0:
	case 1: // x present, only in the dirty map
		s.Add(u[0])
		in[0] = true
	case 2: // x present, promoted
		s.Add(u[0])
		promote()
		in[0] = true
	case 3: // x removed (nil entry in the read map)
		s.Add(u[0])
		promote()
		s.Remove(u[0])
	case 4: // x promoted, y dirty-only
		s.Add(u[0])
		promote()
		s.Add(u[1])
		in[0], in[1] = true, true
	}
	return in
}

func VHSetConc() {
	u := c09keys()
	s := &Set[int]{}
	in := c05prefix(s, u)
	nt := vParam("T")
	kinds := vParam("KINDS") // 4: single-element operations only; 6: also AddSet/RemoveSet; 8: also with the set itself as the argument
	ops := make([]*linOp, nt)
	bulk := false
	for t := 0; t < nt; t++ {
		o := &linOp{kind: vChoose("kind", kinds), key: vChoose("key", 2)}
		if o.kind >= setAddSet {
			bulk = true
		}
		ops[t] = o
		vGo(func() {
			linBegin(o)
			switch o.kind {
			case setAdd:
				o.rok = s.Add(u[o.key])
			case setRemove:
				o.rok = s.Remove(u[o.key])
			case setHas:
				o.rok = s.Has(u[o.key])
			case setLen:
				o.r = s.Len()
			case setAddSet:
				arg := maps.Set[int]{}
				arg.Add(u[0])
				arg.Add(u[1])
				o.r = s.AddSet(arg)
			case setRemoveSet:
				arg := maps.Set[int]{}
				arg.Add(u[o.key])
				o.r = s.RemoveSet(arg)
			case setAddSelf:
				o.r = s.AddSet(s)
			case setRemoveSelf:
				o.r = s.RemoveSet(s)
			}
			linEnd(o)
		})
	}
	vAssert(vWait(), "no Set call blocks")
	// after quiescence Has, Slice and Len agree with each other
	fin := [2]bool{s.Has(u[0]), s.Has(u[1])}
	n := 0
	for _, b := range fin {
		if b {
			n++
		}
	}
	vAssert(s.Len() == n, "after quiescence Len agrees with Has")
	vAssert(len(s.Slice()) == n, "after quiescence Slice agrees with Has")
	// conservation: successful additions minus successful removals equals the change in membership
	gained, lost := 0, 0
	for _, o := range ops {
		switch o.kind {
		case setAdd:
			if o.rok {
				gained++
			}
		case setRemove:
			if o.rok {
				lost++
			}
		case setAddSet, setAddSelf:
			gained += o.r
		case setRemoveSet, setRemoveSelf:
			lost += o.r
		}
	}
	before := 0
	for _, b := range in {
		if b {
			before++
		}
	}
	vAssert(gained-lost == n-before, "successful Adds minus successful Removes equal the change in membership (AddSet/RemoveSet counts included)")
	if !bulk {
		lin := false
		var last [2]bool
		linPerms(ops, func(order []*linOp) {
			st := in
			if c05spec(order, st) {
				// also the final state must match
				for _, o := range order {
					switch o.kind {
					case setAdd:
						st[o.key] = true
					case setRemove:
						st[o.key] = false
					}
				}
				if st == fin {
					lin = true
					last = st
				}
			}
		})
		_ = last
		vAssert(lin, "Set: the calls are linearizable to a sequential set, in an order consistent with real time")
	}
	vCover("setconc done")
}

// VHSetReadersConc: a whole-set reader (String, Slice, Clone, Range, Len, or an algebra operation
// with the set as receiver or as argument) runs while one writer adds or removes a value. The
// reader must return, race-free, a view that contains every stably present member and nothing
// that was never added; the set itself ends in the state the writer left.
func VHSetReadersConc() {
	u := c09keys()
	s := &Set[int]{}
	in := c05prefix(s, u)
	wkind := vChoose("writer", 2) // 0 Add, 1 Remove
	wkey := vChoose("wkey", 2)
	reader := vChoose("reader", 9)
	var view []int
	haveView := false
	size := -1
	vGo(func() {
		if wkind == 0 {
			s.Add(u[wkey])
		} else {
			s.Remove(u[wkey])
		}
	})
	vGo(func() {
		other := maps.Set[int]{}
		other.Add(u[0])
		other.Add(u[1])
		switch reader {
		case 0:
			_ = s.String()
		case 1:
			view, haveView = s.Slice(), true
		case 2:
			view, haveView = s.Clone().Slice(), true
		case 3:
			s.Range(func(x int) bool { view = append(view, x); return true })
			haveView = true
		case 4:
			size = s.Len()
		case 5:
			view, haveView = s.Union(maps.Set[int]{}).Slice(), true
		case 6:
			view, haveView = s.Intersect(other).Slice(), true
		case 7:
			view, haveView = other.Intersect(s).Slice(), true
		case 8:
			view, haveView = s.SetDiff(maps.Set[int]{}).Slice(), true
		}
	})
	vAssert(vWait(), "a whole-set reader and a writer both return")
	for k := 0; k < 2; k++ {
		stable := in[k] && !(wkind == 1 && wkey == k) // present before and not touched by the writer
		never := !in[k] && !(wkind == 0 && wkey == k) // absent before and not added by the writer
		c := 0
		for _, x := range view {
			if x == u[k] {
				c++
			}
		}
		if haveView {
			vAssert(c <= 1, "a concurrent view lists no member twice")
			vAssert(!stable || c == 1, "a concurrent view contains every stably present member")
			vAssert(!never || c == 0, "a concurrent view contains nothing that was never added")
		}
		want := in[k]
		if wkey == k {
			want = wkind == 0
		}
		vAssert(s.Has(u[k]) == want, "after quiescence the set is in the state the writer left")
	}
	for _, x := range view {
		vAssert(x == u[0] || x == u[1], "a concurrent view invents no value")
	}
	if size >= 0 {
		vAssert(size <= 2, "a concurrent Len is within the possible sizes")
	}
	vCover("set readers conc done")
}
