package sync2

import "gopkg.in/typ.v4/maps"

// C05 — sync2.Set is an atomic set under concurrent use.

const (
	setAdd = iota
	setRemove
	setHas
	setLen
	setAddSet
	setRemoveSet
)

// c05spec: sequential set over the two universe values; membership is concrete per path.
func c05spec(order []*linOp, in [2]bool) bool {
	for _, o := range order {
		switch o.kind {
		case setAdd:
			if o.rok != !in[o.key] {
				return false
			}
			in[o.key] = true
		case setRemove:
			if o.rok != in[o.key] {
				return false
			}
			in[o.key] = false
		case setHas:
			if o.rok != in[o.key] {
				return false
			}
		case setLen:
			n := 0
			for _, b := range in {
				if b {
					n++
				}
			}
			if o.r != n {
				return false
			}
		}
	}
	return true
}

func c05prefix(s *Set[int], u []int) [2]bool {
	var in [2]bool
	// promotion of the dirty map: by a Range (Len) or by a Load miss (Has of a dirty-only value)
	promote := func() {
		if vChoose("promoteBy", 2) == 0 {
			s.Len()
		} else {
			s.Has(u[0])
		}
	}
	switch vChoose("prefix", 7) {
	case 6: // x promoted, y added (dirty map rebuilt, read map amended), then x removed: nil entry present in both maps
		s.Add(u[0])
		promote()
		s.Add(u[1])
		s.Remove(u[0])
		in[1] = true
		vCover("setconc prefix: nil entry in an amended map")
	case 5: // x expunged (deleted, then the dirty map re-created for y)
		s.Add(u[0])
		promote()
		s.Remove(u[0])
		s.Add(u[1])
		in[1] = true
		vCover("setconc prefix: expunged")
	case 0:
	case 1: // x present, only in the dirty map
		s.Add(u[0])
		in[0] = true
	case 2: // x present, promoted
		s.Add(u[0])
		promote()
		in[0] = true
	case 3: // x removed (nil entry in the read map)
		s.Add(u[0])
		promote()
		s.Remove(u[0])
	case 4: // x promoted, y dirty-only
		s.Add(u[0])
		promote()
		s.Add(u[1])
		in[0], in[1] = true, true
	}
	return in
}

func VHSetConc() {
	u := c09keys()
	s := &Set[int]{}
	in := c05prefix(s, u)
	nt := vParam("T")
	kinds := vParam("KINDS") // 4: single-element operations only; 6: also AddSet/RemoveSet
	ops := make([]*linOp, nt)
	bulk := false
	for t := 0; t < nt; t++ {
		o := &linOp{kind: vChoose("kind", kinds), key: vChoose("key", 2)}
		if o.kind >= setAddSet {
			bulk = true
		}
		ops[t] = o
		vGo(func() {
			linBegin(o)
			switch o.kind {
			case setAdd:
				o.rok = s.Add(u[o.key])
			case setRemove:
				o.rok = s.Remove(u[o.key])
			case setHas:
				o.rok = s.Has(u[o.key])
			case setLen:
				o.r = s.Len()
			case setAddSet:
				arg := maps.Set[int]{}
				arg.Add(u[0])
				arg.Add(u[1])
				o.r = s.AddSet(arg)
			case setRemoveSet:
				arg := maps.Set[int]{}
				arg.Add(u[o.key])
				o.r = s.RemoveSet(arg)
			}
			linEnd(o)
		})
	}
	vAssert(vWait(), "no Set call blocks")
	// after quiescence Has, Slice and Len agree with each other
	fin := [2]bool{s.Has(u[0]), s.Has(u[1])}
	n := 0
	for _, b := range fin {
		if b {
			n++
		}
	}
	vAssert(s.Len() == n, "after quiescence Len agrees with Has")
	vAssert(len(s.Slice()) == n, "after quiescence Slice agrees with Has")
	// conservation: successful additions minus successful removals equals the change in membership
	gained, lost := 0, 0
	for _, o := range ops {
		switch o.kind {
		case setAdd:
			if o.rok {
				gained++
			}
		case setRemove:
			if o.rok {
				lost++
			}
		case setAddSet:
			gained += o.r
		case setRemoveSet:
			lost += o.r
		}
	}
	before := 0
	for _, b := range in {
		if b {
			before++
		}
	}
	vAssert(gained-lost == n-before, "successful Adds minus successful Removes equal the change in membership (AddSet/RemoveSet counts included)")
	if !bulk {
		lin := false
		var last [2]bool
		linPerms(ops, func(order []*linOp) {
			st := in
			if c05spec(order, st) {
				// also the final state must match
				for _, o := range order {
					switch o.kind {
					case setAdd:
						st[o.key] = true
					case setRemove:
						st[o.key] = false
					}
				}
				if st == fin {
					lin = true
					last = st
				}
			}
		})
		_ = last
		vAssert(lin, "Set: the calls are linearizable to a sequential set, in an order consistent with real time")
	}
	vCover("setconc done")
}
