package sync2

// Linearizability checking inside the harness: every operation records its kind, arguments,
// results (symbolic terms) and logical invocation/response instants (concrete per path).
// After quiescence the harness enumerates the orders consistent with real time, evaluates
// the sequential specification on each with non-forking combinators, ORs them and asserts
// the disjunction: one VC per interleaving, decided for all argument/result values.

type linOp struct {
	kind      int
	key       int // index of the key (map/set specs)
	a, b      int // arguments
	r         int // returned value
	rok       bool
	inv, resp int
	done      bool
}

func linBegin(o *linOp) { o.inv = vStep() }
func linEnd(o *linOp)   { o.resp = vStep(); o.done = true }

// linPerms calls f with every order of the completed operations that respects real time.
func linPerms(ops []*linOp, f func(order []*linOp)) {
	n := len(ops)
	used := make([]bool, n)
	cur := make([]*linOp, 0, n)
	var rec func()
	rec = func() {
		if len(cur) == n {
			f(cur)
			return
		}
		for i := 0; i < n; i++ {
			if used[i] {
				continue
			}
			// ops[i] may come next only if no unused op finished before it started
			ok := true
			for j := 0; j < n; j++ {
				if j != i && !used[j] && ops[j].resp < ops[i].inv {
					ok = false
				}
			}
			if !ok {
				continue
			}
			used[i] = true
			cur = append(cur, ops[i])
			rec()
			cur = cur[:len(cur)-1]
			used[i] = false
		}
	}
	rec()
}
