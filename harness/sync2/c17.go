package sync2

// C17 — Once1/Once2/Once3 run the action exactly once and share its results.
// T concurrent callers plus one later caller, every interleaving at synchronisation
// granularity; the real sync.Once source runs over the engine's Mutex/atomic models.

func VHOnce1() {
	var o Once1[int]
	nt := vParam("T")
	calls, winner := 0, -1
	done := false
	rs := make([]int, nt+1)
	res := make([]int, nt+1)
	for t := 0; t <= nt; t++ {
		rs[t] = vInt("r")
	}
	for t := 0; t < nt; t++ {
		t := t
		vGo(func() {
			res[t] = o.Do(func() int {
				calls++
				winner = t
				vYield()
				done = true
				return rs[t]
			})
			vAssert(done, "Do returns only after the one invocation has completed")
		})
	}
	vAssert(vWait(), "every concurrent Do call returns")
	res[nt] = o.Do(func() int { calls++; winner = nt; return rs[nt] })
	vAssert(calls == 1, "exactly one of the functions is invoked, exactly once")
	vAssert(winner >= 0 && winner < nt, "the late caller's function is not invoked")
	if winner < 0 || winner > nt {
		return
	}
	for t := 0; t <= nt; t++ {
		vAssert(res[t] == rs[winner], "every Do call returns the value the one invocation returned")
	}
	vAssert(o.R1 == rs[winner], "the stored result is the invocation's result")
	if winner == nt-1 && nt >= 2 {
		vCover("once: the last-started goroutine wins")
	}
}

func VHOnce23() {
	nt := vParam("T")
	calls, winner := 0, -1
	a := make([]int, nt+1)
	b := make([]int, nt+1)
	c := make([]int, nt+1)
	for t := 0; t <= nt; t++ {
		a[t], b[t], c[t] = vInt("a"), vInt("b"), vInt("c")
	}
	ra := make([]int, nt+1)
	rb := make([]int, nt+1)
	rc := make([]int, nt+1)
	three := vChoose("arity3", 2) == 1
	var o2 Once2[int, int]
	var o3 Once3[int, int, int]
	do := func(t int) {
		if three {
			ra[t], rb[t], rc[t] = o3.Do(func() (int, int, int) { calls++; winner = t; return a[t], b[t], c[t] })
		} else {
			ra[t], rb[t] = o2.Do(func() (int, int) { calls++; winner = t; return a[t], b[t] })
		}
	}
	for t := 0; t < nt; t++ {
		t := t
		vGo(func() { do(t) })
	}
	vAssert(vWait(), "every concurrent Do call returns")
	do(nt)
	vAssert(calls == 1, "exactly one of the functions is invoked, exactly once")
	if winner < 0 || winner > nt {
		vAssert(false, "some function ran")
		return
	}
	for t := 0; t <= nt; t++ {
		vAssert(ra[t] == a[winner], "every Do call returns the first result of the one invocation")
		vAssert(rb[t] == b[winner], "every Do call returns the second result of the one invocation")
		if three {
			vAssert(rc[t] == c[winner], "every Do call returns the third result of the one invocation")
		}
	}
	vCover("once23 done")
}

// VHOncePanic: a function that panics still counts as the one invocation (as with sync.Once):
// no later Do call invokes another function.
func VHOncePanic() {
	var o1 Once1[int]
	var o2 Once2[int, int]
	var o3 Once3[int, int, int]
	calls := 0
	which := vChoose("which", 3)
	p := vPanics(func() {
		switch which {
		case 0:
			o1.Do(func() int { calls++; panic("boom") })
		case 1:
			o2.Do(func() (int, int) { calls++; panic("boom") })
		case 2:
			o3.Do(func() (int, int, int) { calls++; panic("boom") })
		}
	})
	vAssert(p, "the panic of the first function propagates to its caller")
	// What a later Do call yields after a panicking invocation is not fixed by the property (zero
	// values as with sync.Once, or the same panic again as with sync.OnceValue): only that it ends
	// and that no second function is ever invoked.
	x := vInt("x")
	later := func() {
		vPanics(func() {
			switch which {
			case 0:
				o1.Do(func() int { calls++; return x })
			case 1:
				o2.Do(func() (int, int) { calls++; return x, x })
			case 2:
				o3.Do(func() (int, int, int) { calls++; return x, x, x })
			}
		})
	}
	later()
	vAssert(calls == 1, "exactly one of the functions is invoked, exactly once - even when it panicked")
	// and with a second goroutine arriving later
	vGo(later)
	vAssert(vWait(), "a later Do call ends")
	vAssert(calls == 1, "no later caller's function is invoked after a panicking first invocation")
	vCover("once panic done")
}

// VHOnceNil: a caller passing a nil function while the one invocation is in flight still
// waits for it and shares its results (its own function is never needed).
func VHOnceNil() {
	which := vChoose("which", 3)
	var o1 Once1[int]
	var o2 Once2[int, int]
	var o3 Once3[int, int, int]
	x := vInt("x")
	entered := make(chan int)
	got := 0
	vGo(func() {
		switch which {
		case 0:
			o1.Do(func() int { entered <- 1; vYield(); return x })
		case 1:
			o2.Do(func() (int, int) { entered <- 1; vYield(); return x, x })
		case 2:
			o3.Do(func() (int, int, int) { entered <- 1; vYield(); return x, x, x })
		}
	})
	vGo(func() {
		<-entered // the invocation is running now
		switch which {
		case 0:
			got = o1.Do(nil)
		case 1:
			got, _ = o2.Do(nil)
		case 2:
			got, _, _ = o3.Do(nil)
		}
		vAssert(got == x, "a Do call made while the invocation is in flight returns that invocation's results, whatever function it passed")
	})
	vAssert(vWait(), "both Do calls return")
	vCover("once nil done")
}
