package sync2

// C04, concurrent part: a canned prefix, then T goroutines each doing one operation of
// symbolic kind on key x or y with symbolic values; every interleaving at the granularity of
// the individual atomic/mutex operations (within the preemption bound); per interleaving a
// linearizability VC against the sequential map, plus the happens-before race detector.

const (
	mLoad = iota
	mStore
	mLoadOrStore
	mLoadAndDelete
	mDelete
	mRange
)

type c04state struct {
	has [2]bool
	val [2]int
}

func c04spec(order []*linOp, st c04state) bool {
	ok := true
	for _, o := range order {
		k := o.key
		cur := 0
		if st.has[k] {
			cur = st.val[k]
		}
		switch o.kind {
		case mLoad:
			if o.rok != st.has[k] {
				return false
			}
			ok = vAnd(ok, o.r == cur)
		case mStore:
			st.has[k], st.val[k] = true, o.a
		case mLoadOrStore:
			if o.rok != st.has[k] {
				return false
			}
			if st.has[k] {
				ok = vAnd(ok, o.r == cur)
			} else {
				ok = vAnd(ok, o.r == o.a)
				st.has[k], st.val[k] = true, o.a
			}
		case mLoadAndDelete:
			if o.rok != st.has[k] {
				return false
			}
			ok = vAnd(ok, o.r == cur)
			st.has[k] = false
		case mDelete:
			st.has[k] = false
		}
	}
	return ok
}

func c04cprefix(m *Map[int, int], keys []int) c04state {
	var st c04state
	set := func(i int) {
		v := vInt("pv")
		m.Store(keys[i], v)
		st.has[i], st.val[i] = true, v
	}
	promote := func() {
		if vChoose("promoteBy", 2) == 0 {
			m.Range(func(int, int) bool { return true })
		} else {
			m.Load(keys[0])
		}
	}
	if n := vParam("PFX"); n > 0 {
		// generic mode: every sequential history of n calls (Store / Delete / Load of either key,
		// or a Range) - all internal layouts reachable in n steps, not only the canned ones below
		for i := 0; i < n; i++ {
			op := vChoose("pfx.op", 7)
			switch {
			case op == 6:
				m.Range(func(int, int) bool { return true })
			case op%3 == 0:
				set(op / 3)
			case op%3 == 1:
				m.Delete(keys[op/3])
				st.has[op/3] = false
			default:
				m.Load(keys[op/3])
			}
		}
		return st
	}
	switch vChoose("prefix", 9) {
	case 0:
	case 6: // promoted by misses (missLocked) rather than by Range
		set(0)
		m.Load(keys[0])
		vCover("conc prefix: promoted by a miss")
	case 1:
		set(0)
		vCover("conc prefix: x dirty-only")
	case 2:
		set(0)
		promote()
	case 3:
		set(0)
		promote()
		m.Delete(keys[0])
		st.has[0] = false
	case 4:
		set(0)
		promote()
		m.Delete(keys[0])
		st.has[0] = false
		set(1)
		vCover("conc prefix: x expunged")
	case 5:
		set(0)
		promote()
		set(1)
	case 7: // x deleted after the dirty map was rebuilt (a nil entry shared by both maps), one miss short of a promotion
		set(0)
		promote()
		set(1)
		m.Delete(keys[0])
		st.has[0] = false
		m.Load(keys[1])
		vCover("conc prefix: nil entry in both maps, promotion imminent")
	case 8: // both keys deleted through the read map after a promotion, then x stored again (dirty rebuilt without the expunged y)
		set(0)
		set(1)
		promote()
		m.Delete(keys[0])
		m.Delete(keys[1])
		st.has[0], st.has[1] = false, false
		set(0)
	}
	return st
}

func VHMapConc() {
	vMapOrder(false)
	keys := c09keys()
	m := &Map[int, int]{}
	st := c04cprefix(m, keys)
	nt := vParam("T")
	ops := make([]*linOp, nt)
	for t := 0; t < nt; t++ {
		o := &linOp{kind: vChoose("kind", 5), key: vChoose("key", 2)}
		if o.kind == mStore || o.kind == mLoadOrStore {
			o.a = vInt("arg")
		}
		ops[t] = o
		vGo(func() {
			linBegin(o)
			k := keys[o.key]
			switch o.kind {
			case mLoad:
				o.r, o.rok = m.Load(k)
			case mStore:
				m.Store(k, o.a)
			case mLoadOrStore:
				o.r, o.rok = m.LoadOrStore(k, o.a)
			case mLoadAndDelete:
				o.r, o.rok = m.LoadAndDelete(k)
			case mDelete:
				m.Delete(k)
			}
			linEnd(o)
		})
	}
	vAssert(vWait(), "no Map call blocks")
	// final contents, read after quiescence, extend the history
	fin := make([]*linOp, 0, 2)
	for i := range keys {
		o := &linOp{kind: mLoad, key: i}
		linBegin(o)
		o.r, o.rok = m.Load(keys[i])
		linEnd(o)
		fin = append(fin, o)
	}
	// ... and they must survive a promotion of the dirty map (a value that lives only in the
	// read map, or only in the dirty map, would be lost or resurrected by it)
	visited := 0
	m.Range(func(int, int) bool { visited++; return true })
	present := 0
	for i := range keys {
		if fin[i].rok {
			present++
		}
		o := &linOp{kind: mLoad, key: i}
		linBegin(o)
		o.r, o.rok = m.Load(keys[i])
		linEnd(o)
		fin = append(fin, o)
	}
	vAssert(visited == present, "after quiescence Range visits exactly the keys that Load finds")
	all := append(append([]*linOp(nil), ops...), fin...)
	lin := false
	linPerms(all, func(order []*linOp) { lin = vOr(lin, c04spec(order, st)) })
	vAssert(lin, "Map: calls and final contents are linearizable to an ordinary map (no value lost, resurrected or seen early)")
	vCover("mapconc done")
}

// VHMapRangeConc: Range concurrent with one writer.
func VHMapRangeConc() {
	vMapOrder(false)
	keys := c09keys()
	m := &Map[int, int]{}
	st := c04cprefix(m, keys)
	w := &linOp{kind: 1 + vChoose("wkind", 4), key: vChoose("wkey", 2), a: vInt("arg")}
	if w.kind == mLoadOrStore {
		w.kind = mStore
	}
	var seenK, seenV []int
	vGo(func() {
		m.Range(func(k, v int) bool {
			seenK, seenV = append(seenK, k), append(seenV, v)
			return true
		})
	})
	vGo(func() {
		k := keys[w.key]
		switch w.kind {
		case mStore:
			m.Store(k, w.a)
		case mLoadAndDelete:
			m.LoadAndDelete(k)
		case mDelete:
			m.Delete(k)
		}
	})
	vAssert(vWait(), "Range and a concurrent writer both return")
	for i := range seenK {
		for j := 0; j < i; j++ {
			vAssert(seenK[j] != seenK[i], "Range calls its function at most once per key")
		}
		for ki := range keys {
			if seenK[i] != keys[ki] {
				continue
			}
			// the value must be one the key held at some moment during the call
			okv := false
			if st.has[ki] {
				okv = vOr(okv, seenV[i] == st.val[ki])
			}
			if w.key == ki && w.kind == mStore {
				okv = vOr(okv, seenV[i] == w.a)
			}
			vAssert(okv, "Range passes only a value the key held at some moment during the call")
		}
	}
	// keys present and untouched for the whole call are visited
	for ki := range keys {
		if st.has[ki] && w.key != ki {
			found := false
			for i := range seenK {
				if seenK[i] == keys[ki] {
					found = true
				}
			}
			vAssert(found, "Range visits every key that was present and untouched for the whole call")
			vCover("range conc: untouched key visited")
		}
	}
}
