package sync2

// C18 — AtomicValue is an atomic register; Pool never hands one item to two users.

const (
	avLoad = iota
	avStore
	avSwap
	avCAS
)

func c18do(v *AtomicValue[int], o *linOp, name string) {
	o.kind = vChoose(name+".kind", 4)
	switch o.kind {
	case avStore, avSwap:
		o.a = vInt(name + ".new")
	case avCAS:
		o.a, o.b = vInt(name+".old"), vInt(name+".new")
	}
	linBegin(o)
	switch o.kind {
	case avLoad:
		o.r = v.Load()
	case avStore:
		v.Store(o.a)
	case avSwap:
		o.r = v.Swap(o.a)
	case avCAS:
		o.rok = v.CompareAndSwap(o.a, o.b)
	}
	linEnd(o)
}

// c18spec evaluates the register specification along one order; has/val is the state.
func c18spec(order []*linOp, has bool, val int) bool {
	ok := true
	for _, o := range order {
		cur := vIte(has, val, 0) // empty reads as zero
		switch o.kind {
		case avLoad:
			ok = vAnd(ok, o.r == cur)
		case avStore:
			has, val = true, o.a
		case avSwap:
			ok = vAnd(ok, o.r == cur)
			has, val = true, o.a
		case avCAS:
			// judged only once a value has been stored (as the property states)
			ok = vAnd(ok, vImplies(has, o.rok == (val == o.a)))
			val = vIte(o.rok, o.b, val)
			has = vOr(has, o.rok)
		}
	}
	return ok
}

func VHAtomicValue() {
	var v AtomicValue[int]
	has, init := false, 0
	if vChoose("prefix", 2) == 1 {
		init = vInt("s0")
		v.Store(init)
		has = true
	}
	c18conc(&v, has, init)
}

// VHAtomicValueAged: the same after a long sequential life of the value - HIST rounds of failed
// and successful CompareAndSwap, Store, Swap and Load, each checked against the register - so
// that anything an AtomicValue counts or adapts over its lifetime (contention counters,
// switched-over slow paths) is in its late state when the concurrent calls arrive.
func VHAtomicValueAged() {
	var v AtomicValue[int]
	hist := vParam("HIST")
	v.Store(0)
	cur := 0
	for i := 1; i <= hist; i++ {
		vAssert(!v.CompareAndSwap(-1, -2), "aged value: a CompareAndSwap with the wrong old value fails")
		vAssert(v.Load() == cur, "aged value: Load returns the value stored last")
		switch i % 4 {
		case 0:
			vAssert(v.CompareAndSwap(cur, i), "aged value: a CompareAndSwap with the right old value succeeds")
			cur = i
		case 1:
			v.Store(i)
			cur = i
		case 2:
			vAssert(v.Swap(i) == cur, "aged value: Swap returns the previous value")
			cur = i
		}
	}
	init := vInt("s0")
	v.Store(init)
	c18conc(&v, true, init)
}

func c18conc(vp *AtomicValue[int], has bool, init int) {
	v := vp
	nt, per := vParam("T"), vParam("OPS")
	ops := make([]*linOp, 0, nt*per)
	for t := 0; t < nt; t++ {
		mine := make([]*linOp, per)
		for i := range mine {
			mine[i] = &linOp{}
			ops = append(ops, mine[i])
		}
		name := "t" + string(rune('0'+t))
		vGo(func() {
			for i, o := range mine {
				c18do(v, o, name+"."+string(rune('0'+i)))
			}
		})
	}
	vAssert(vWait(), "no AtomicValue call blocks")
	// the register's final content, read after quiescence, extends the history
	fin := &linOp{kind: avLoad}
	linBegin(fin)
	fin.r = v.Load()
	linEnd(fin)
	ops = append(ops, fin)
	lin := false
	linPerms(ops, func(order []*linOp) { lin = vOr(lin, c18spec(order, has, init)) })
	vAssert(lin, "AtomicValue: the calls are linearizable to an atomic register (empty reads as zero)")
	vCover("atomicvalue done")
}

// sequential register history (single goroutine): every call compared with the register
func VHAtomicValueSeq() {
	var v AtomicValue[int]
	has, val := false, 0
	k := vParam("K")
	for i := 0; i < k; i++ {
		o := &linOp{}
		c18do(&v, o, "op")
		vAssert(c18spec([]*linOp{o}, has, val), "AtomicValue: sequential call agrees with the register")
		switch o.kind {
		case avStore, avSwap:
			has, val = true, o.a
		case avCAS:
			if o.rok {
				has, val = true, o.b
			}
		}
	}
	vCover("atomicvalue seq done")
}

// ---- Pool ----

type c18tok struct {
	id   int
	held bool
}

func VHPool() {
	withNew := vChoose("withNew", 2) == 1
	p := &Pool[*c18tok]{}
	if withNew {
		p.New = func() *c18tok { return &c18tok{id: 100} }
	}
	nt := vParam("T")
	pre := vChoose("preput", 2)
	var put []*c18tok
	if pre == 1 {
		t := &c18tok{id: 1}
		put = append(put, t)
		p.Put(t)
	}
	for t := 0; t < nt; t++ {
		t := t
		vGo(func() {
			mine := &c18tok{id: 10 + t}
			if vChoose("putfirst", 2) == 1 {
				p.Put(mine)
			}
			g := p.Get()
			if g == nil {
				vAssert(!withNew, "Get returns nil only when New is nil")
				return
			}
			// whoever holds a token marks it; a second holder would find it marked (or race)
			vAssert(!g.held, "Pool: a value is never held by two Get callers at once")
			g.held = true
			vYield()
			vAssert(g.id == 1 || g.id >= 10, "Get returns a value previously Put or a fresh result of New")
			g.held = false
			p.Put(g)
		})
	}
	vAssert(vWait(), "no Pool call blocks")
	vCover("pool done")
}
