package sync2

// C04 at scale: a Map of NMAP (1100, thorough 5000) keys, so that promotions, dirty-map
// rebuilds with expunged entries, and anything keyed to the size of the map (recycled tables,
// batched promotion, miss counters) happen on tables of more than 1024 entries. Phases: store
// all keys; promote (by a Range or by as many misses as there are dirty keys); delete every third
// key; store a new key (dirty map rebuilt, deleted entries expunged); LoadOrStore over the whole
// range; then a Range whose callback - at its 1st, 2nd, 4th or a middle call - disturbs the map
// re-entrantly (stores a new key and promotes it by a Range or by misses, or deletes and
// re-stores keys it has not reported yet). Keys that were present and untouched for the whole
// call must be reported exactly once with their value; afterwards every Load agrees with a plain
// Go map. Keys and values are concrete: the solver decides nothing here beyond the choices; the
// run exists for the scale.
func VHMapLong() {
	vMapOrder(false)
	n := vParam("NMAP")
	m := new(Map[int, int])
	model := map[int]int{}
	for k := 0; k < n; k++ {
		m.Store(k, k+1)
		model[k] = k + 1
	}
	promote := func(by int, miss int) {
		if by == 0 {
			m.Range(func(int, int) bool { return false })
			return
		}
		for i := 0; i <= len(model)+1; i++ {
			m.Load(miss) // misses on a key that is only in the dirty map, or in neither
		}
	}
	promote(vChoose("promoteBy", 2), n-1)
	for k := 0; k < n; k += 3 {
		m.Delete(k)
		delete(model, k)
	}
	m.Store(n, n+1) // new key: the dirty map is rebuilt, deleted entries are expunged
	model[n] = n + 1
	for k := 0; k <= n+1; k++ {
		act, loaded := m.LoadOrStore(k, -k-1)
		want, had := model[k]
		vAssert(loaded == had, "long map: LoadOrStore reports whether the key was present")
		if had {
			vAssert(act == want, "long map: LoadOrStore returns the present value")
		} else {
			vAssert(act == -k-1, "long map: LoadOrStore returns the stored value")
			model[k] = -k - 1
		}
	}
	// Range with a re-entrant disturbance
	at := []int{1, 2, 4, n / 2}[vChoose("at", 4)]
	kind := vChoose("disturb", 4)
	seen := map[int]int{}
	vals := map[int]int{}
	touched := map[int]bool{}
	calls := 0
	m.Range(func(k, v int) bool {
		seen[k]++
		vals[k] = v
		calls++
		if calls == at {
			switch kind {
			case 1, 2:
				m.Store(n+5, 7)
				model[n+5] = 7
				touched[n+5] = true
				promote(kind-1, n+5)
			case 3:
				for j := 0; j < 40; j++ {
					x := (k + 1 + 13*j) % n
					if seen[x] == 0 && !touched[x] {
						m.Delete(x)
						m.Store(x, 1000+x)
						model[x] = 1000 + x
						touched[x] = true
					}
				}
				promote(0, 0)
			}
		}
		return true
	})
	for k, want := range model {
		if touched[k] {
			vAssert(seen[k] <= 1, "long map: Range reports no key twice")
			continue
		}
		vAssert(seen[k] == 1, "long map: Range reports every key that was present and untouched for the whole call exactly once")
		vAssert(vals[k] == want, "long map: Range reports the key's value")
	}
	for k := range seen {
		_, had := model[k]
		vAssert(had, "long map: Range reports present keys only")
	}
	for k := 0; k <= n+6; k++ {
		v, ok := m.Load(k)
		want, had := model[k]
		vAssert(ok == had && (!ok || v == want), "long map: afterwards every Load agrees with an ordinary map")
	}
	cnt := 0
	m.Range(func(int, int) bool { cnt++; return true })
	vAssert(cnt == len(model), "long map: a final Range reports as many keys as the ordinary map holds")
	vCover("map long done")
}
