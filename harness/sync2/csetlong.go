package sync2

import (
	"gopkg.in/typ.v4/maps"
	"gopkg.in/typ.v4/sets"
)

// C03 / C05 at scale: sets of NSET (100, thorough 300) concrete values, so that bulk paths,
// batching and growth thresholds are passed. The receiver is first put into the concurrent map's
// rarer layout on that scale: all values added and promoted to the read-only map, every third
// one removed (nil entries), then a new value added (the dirty map is rebuilt and the removed
// entries are expunged). One symbolic value x anywhere in the range is added or removed on top.
// Then a large argument is AddSet / RemoveSet / combined with it, and counts, membership, Len and
// the algebra are compared with a plain Go map. Both implementations, both as receiver and as
// argument.

func cslNew(impl int) sets.Set[int] {
	if impl == 0 {
		return make(maps.Set[int])
	}
	return &Set[int]{}
}

func cslAgree(s sets.Set[int], model map[int]bool, lo, hi int, what string) {
	n := 0
	for v := lo; v < hi; v++ {
		vAssert(s.Has(v) == model[v], what+": Has agrees with the model for every value")
		if model[v] {
			n++
		}
	}
	vAssert(s.Len() == n, what+": Len is the number of members")
	seen := map[int]int{}
	s.Range(func(v int) bool { seen[v]++; return true })
	vAssert(len(seen) == n, what+": Range visits every member")
	for v, k := range seen {
		vAssert(k == 1 && model[v], what+": Range visits members only, each once")
	}
}

func VHSetLong() {
	vMapOrder(false)
	n := vParam("NSET")
	a := cslNew(vChoose("A.impl", 2))
	ma := map[int]bool{}
	for v := 0; v < n; v++ {
		vAssert(a.Add(v), "long: adding a new value succeeds")
		ma[v] = true
	}
	vAssert(a.Len() == n, "long: Len after the adds") // (promotes the dirty map)
	for v := 0; v < n; v += 3 {
		vAssert(a.Remove(v), "long: removing a member succeeds")
		ma[v] = false
	}
	vAssert(a.Add(n), "long: adding one more new value succeeds") // (dirty map rebuilt: removed entries expunged)
	ma[n] = true
	// one symbolic value on top
	x := vRange("x", 0, n+3)
	switch vChoose("xop", 3) {
	case 1:
		vAssert(a.Add(x) == !ma[x], "long: Add(x) succeeds exactly when x was absent")
		ma[x] = true
	case 2:
		vAssert(a.Remove(x) == ma[x], "long: Remove(x) succeeds exactly when x was present")
		ma[x] = false
	}
	// the argument: three of every four values of the range and a few beyond it
	b := cslNew(vChoose("B.impl", 2))
	mb := map[int]bool{}
	for v := 0; v < n+6; v++ {
		if v%4 != 3 || v >= n {
			b.Add(v)
			mb[v] = true
		}
	}
	lo, hi := 0, n+8
	switch vChoose("op", 6) {
	case 0:
		want := 0
		for v := lo; v < hi; v++ {
			if mb[v] && !ma[v] {
				want++
				ma[v] = true
			}
		}
		vAssert(a.AddSet(b) == want, "long: AddSet returns the number of values gained")
		cslAgree(a, ma, lo, hi, "long: after AddSet")
		for v := 0; v < n; v += 6 {
			vAssert(!a.Add(v), "long: a value gained by AddSet cannot be added again")
			vAssert(a.Remove(v), "long: a value gained by AddSet can be removed")
			ma[v] = false
		}
		cslAgree(a, ma, lo, hi, "long: after AddSet and removals")
	case 1:
		want := 0
		for v := lo; v < hi; v++ {
			if mb[v] && ma[v] {
				want++
				ma[v] = false
			}
		}
		vAssert(a.RemoveSet(b) == want, "long: RemoveSet returns the number of values lost")
		cslAgree(a, ma, lo, hi, "long: after RemoveSet")
	case 2:
		r := a.Union(b)
		exp := map[int]bool{}
		for v := lo; v < hi; v++ {
			exp[v] = ma[v] || mb[v]
		}
		cslAgree(r, exp, lo, hi, "long: Union")
		cslAgree(a, ma, lo, hi, "long: Union leaves the receiver alone")
		cslAgree(b, mb, lo, hi, "long: Union leaves the argument alone")
	case 3:
		r := a.Intersect(b)
		exp := map[int]bool{}
		for v := lo; v < hi; v++ {
			exp[v] = ma[v] && mb[v]
		}
		cslAgree(r, exp, lo, hi, "long: Intersect")
	case 4:
		r, q := a.SetDiff(b), a.SymDiff(b)
		exp, exq := map[int]bool{}, map[int]bool{}
		for v := lo; v < hi; v++ {
			exp[v] = ma[v] && !mb[v]
			exq[v] = ma[v] != mb[v]
		}
		cslAgree(r, exp, lo, hi, "long: SetDiff")
		cslAgree(q, exq, lo, hi, "long: SymDiff")
	case 5:
		c := a.Clone()
		cslAgree(c, ma, lo, hi, "long: Clone")
		vAssert(c.Add(n+7) && !a.Has(n+7), "long: Clone is independent of the original")
		want := 0
		for v := lo; v < hi; v++ {
			if ma[v] && !mb[v] {
				want++
			}
		}
		vAssert(b.AddSet(a) == want, "long: AddSet of the prepared set into another returns the number gained")
		vAssert(len(a.Slice()) == a.Len(), "long: Slice has Len values")
	}
	vCover("set long done")
}
