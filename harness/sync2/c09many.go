package sync2

// C09 with many keys: NK (1300, thorough 5000) distinct keys pass through one KeyedMutex and one
// KeyedRWMutex, so that anything keyed to the number of cached keys (sweeps, shards, rebuilt
// tables) happens. A few keys stay held throughout. For every key, while it is held a
// TryLockKey must fail (and for a read-held key TryRLockKey must succeed, TryLockKey fail), and
// once released it must be free again; at the end the keys held throughout are still held,
// a second goroutine blocks on one of them until it is released, and a key that was cleared
// while free is a fresh, free key. The keys are concrete; one symbolic key within six of either end
// or the middle is probed at the end.
func VHKeyedMany() {
	vMapOrder(false) // (the iteration order inside the map's table rebuilds is not explored here)
	n := vParam("NK")
	var km KeyedMutex[int]
	var rw KeyedRWMutex[int]
	const held = 4
	for k := 0; k < held; k++ {
		km.LockKey(-1 - k)
		rw.RLockKey(-1 - k)
	}
	for k := 0; k < n; k++ {
		if k%2 == 0 {
			km.LockKey(k)
		} else {
			vAssert(km.TryLockKey(k), "many keys: TryLockKey on a never-seen key succeeds")
		}
		vAssert(!km.TryLockKey(k), "many keys: a held key cannot be try-locked")
		km.UnlockKey(k)
		switch k % 3 {
		case 0:
			rw.LockKey(k)
			vAssert(!rw.TryLockKey(k) && !rw.TryRLockKey(k), "many keys: a write-held key admits nobody")
			rw.UnlockKey(k)
		case 1:
			rw.RLockKey(k)
			vAssert(!rw.TryLockKey(k), "many keys: a read-held key admits no writer")
			vAssert(rw.TryRLockKey(k), "many keys: a read-held key admits another reader")
			rw.RUnlockKey(k)
			rw.RUnlockKey(k)
		case 2:
			vAssert(rw.TryRLockKey(k), "many keys: TryRLockKey on a never-seen key succeeds")
			rw.RUnlockKey(k)
		}
		if k%29 == 3 {
			km.ClearKey(k)
			rw.ClearKey(k)
		}
	}
	for k := 0; k < held; k++ {
		vAssert(!km.TryLockKey(-1-k), "many keys: a key held throughout is still held")
		vAssert(!rw.TryLockKey(-1-k), "many keys: a key read-held throughout still excludes writers")
	}
	lo := []int{0, n / 2, n - 6}[vChoose("pivot", 3)]
	x := vRange("x", lo, lo+6)
	vAssert(km.TryLockKey(x), "many keys: every released key is free")
	vAssert(!km.TryLockKey(x), "many keys: and held once taken")
	km.UnlockKey(x)
	vAssert(rw.TryLockKey(x), "many keys: every released key is free for writing")
	rw.UnlockKey(x)
	// a second goroutine must wait for a key held throughout
	inside := false
	vGo(func() {
		km.LockKey(-1)
		inside = true
		km.UnlockKey(-1)
	})
	vAssert(!vWait() && !inside, "many keys: a second goroutine waits for a held key")
	km.UnlockKey(-1)
	vAssert(vWait() && inside, "many keys: and proceeds once it is released")
	vCover("keyed many done")
}
