package sync2

import (
	"gopkg.in/typ.v4/maps"
	"gopkg.in/typ.v4/sets"
)

// C03 — set operations equal mathematical set algebra in both implementations.
// Universe: U symbolic values assumed pairwise distinct (choosing the same index twice
// covers equal values), plus a free probe. The reference model is a plain Go map.

type c03side struct {
	set   sets.Set[int]
	model map[int]bool
	conc  bool
}

func c03universe() []int {
	n := vParam("U")
	u := make([]int, n)
	for i := range u {
		u[i] = vInt("u")
		for j := 0; j < i; j++ {
			vAssume(u[i] != u[j])
		}
	}
	return u
}

func c03new(name string) *c03side {
	s := &c03side{model: map[int]bool{}}
	if vChoose(name+".impl", 2) == 0 {
		s.set = make(maps.Set[int])
	} else {
		s.set = &Set[int]{}
		s.conc = true
	}
	return s
}

// history drives k operations: Add(u_i), Remove(u_i), and for the concurrent set a
// promotion (Len ranges and promotes the dirty map) or a miss (Has of an absent value).
func (s *c03side) history(name string, u []int, k int) {
	if s.conc && len(u) >= 2 {
		// the dirty map is promoted either by a Range (Len) or by a Load miss (Has of a dirty-only key)
		promote := func() {
			if vChoose(name+".promoteBy", 2) == 0 {
				s.set.Len()
			} else {
				s.set.Has(u[0])
			}
		}
		// canned prefixes that put the concurrent map into its rarer internal layouts
		switch vChoose(name+".layout", 4) {
		case 3: // u0 in the read-only map, u1 only in the dirty map
			s.set.Add(u[0])
			promote()
			s.set.Add(u[1])
			s.model[u[0]], s.model[u[1]] = true, true
			vCover("layout: members split between read and dirty map")
		case 1: // u0 deleted while in the read-only map (entry.p == nil)
			s.set.Add(u[0])
			promote()
			s.set.Remove(u[0])
			vCover("layout: deleted entry in the read map")
		case 2: // u0 expunged: deleted, then the dirty map re-created by a new key
			s.set.Add(u[0])
			promote()
			s.set.Remove(u[0])
			s.set.Add(u[1])
			s.model[u[1]] = true
			vCover("layout: expunged entry")
		}
	}
	for step := 0; step < k; step++ {
		nops := 2 * len(u)
		if s.conc {
			nops += 2
		}
		op := vChoose(name+".op", nops)
		switch {
		case op < len(u):
			x := u[op]
			got := s.set.Add(x)
			vAssert(got == !s.model[x], "Add reports true exactly when membership changed")
			s.model[x] = true
		case op < 2*len(u):
			x := u[op-len(u)]
			got := s.set.Remove(x)
			vAssert(got == s.model[x], "Remove reports true exactly when membership changed")
			delete(s.model, x)
		case op == 2*len(u):
			vAssert(s.set.Len() == len(s.model), "Len is the number of members")
		default:
			vAssert(!s.set.Has(vInt("fresh")) || true, "Has(miss)")
		}
	}
}

// subset fills the set with a chosen subset of the universe.
func (s *c03side) subset(name string, u []int) {
	mask := vChoose(name+".subset", 1<<len(u))
	for i, x := range u {
		if mask&(1<<i) != 0 {
			s.set.Add(x)
			s.model[x] = true
		}
	}
	if s.conc && vChoose(name+".promote", 2) == 1 {
		s.set.Len()
	}
}

func c03agrees(set sets.Set[int], model map[int]bool, u []int, p int, what string) {
	for _, x := range u {
		vAssert(set.Has(x) == model[x], what+": membership of every universe value")
	}
	vAssert(set.Has(p) == model[p], what+": membership of an arbitrary probe value")
	vAssert(set.Len() == len(model), what+": Len is the number of members")
	sl := set.Slice()
	vAssert(len(sl) == len(model), what+": Slice lists every member exactly once (length)")
	for i, x := range sl {
		vAssert(model[x], what+": Slice lists only members")
		for j := 0; j < i; j++ {
			vAssert(sl[j] != x, what+": Slice lists no member twice")
		}
	}
}

func c03expect(u []int, f func(x int) bool) map[int]bool {
	m := map[int]bool{}
	for _, x := range u {
		if f(x) {
			m[x] = true
		}
	}
	return m
}

func VHSetAlgebra() {
	vMapOrder(false) // iteration orders are explored only inside the operation under test
	u := c03universe()
	a, b := c03new("A"), c03new("B")
	a.history("A", u, vParam("KA"))
	b.subset("B", u)
	p := vInt("probe")
	c03agrees(a.set, a.model, u, p, "A before")
	c03agrees(b.set, b.model, u, p, "B before")
	ma, mb := a.model, b.model
	op := vChoose("op", 7)
	var r sets.Set[int]
	var exp map[int]bool
	vMapOrder(true)
	defer vMapOrder(false)
	switch op {
	case 0:
		r = a.set.Union(b.set)
		exp = c03expect(u, func(x int) bool { return ma[x] || mb[x] })
	case 1:
		r = a.set.Intersect(b.set)
		exp = c03expect(u, func(x int) bool { return ma[x] && mb[x] })
	case 2:
		r = a.set.SetDiff(b.set)
		exp = c03expect(u, func(x int) bool { return ma[x] && !mb[x] })
	case 3:
		r = a.set.SymDiff(b.set)
		exp = c03expect(u, func(x int) bool { return ma[x] != mb[x] })
	case 4:
		r = a.set.Clone()
		exp = c03expect(u, func(x int) bool { return ma[x] })
	case 5: // AddSet mutates A
		want := 0
		for _, x := range u {
			if mb[x] && !ma[x] {
				want++
			}
		}
		got := a.set.AddSet(b.set)
		vMapOrder(false)
		vAssert(got == want, "AddSet returns the number of members gained")
		for _, x := range u {
			if mb[x] {
				ma[x] = true
			}
		}
		c03agrees(a.set, ma, u, p, "A after AddSet")
		c03agrees(b.set, mb, u, p, "B after AddSet")
		vCover("setalgebra: AddSet")
		return
	case 6: // RemoveSet mutates A
		want := 0
		for _, x := range u {
			if mb[x] && ma[x] {
				want++
			}
		}
		got := a.set.RemoveSet(b.set)
		vMapOrder(false)
		vAssert(got == want, "RemoveSet returns the number of members lost")
		for _, x := range u {
			if mb[x] {
				delete(ma, x)
			}
		}
		c03agrees(a.set, ma, u, p, "A after RemoveSet")
		c03agrees(b.set, mb, u, p, "B after RemoveSet")
		return
	}
	vMapOrder(false)
	c03agrees(r, exp, u, p, "result")
	c03agrees(a.set, ma, u, p, "A unchanged by the operation")
	c03agrees(b.set, mb, u, p, "B unchanged by the operation")
	// the result is detached: mutate it and re-check the operands
	r.Add(p)
	for _, x := range u {
		r.Remove(x)
	}
	c03agrees(a.set, ma, u, p, "A unchanged by mutating the result")
	c03agrees(b.set, mb, u, p, "B unchanged by mutating the result")
	_ = r.String()
	if len(ma) >= 2 && len(mb) >= 1 && a.conc != b.conc {
		vCover("setalgebra: mixed pairing, |A| >= 2")
	}
	if a.conc && b.conc {
		vCover("setalgebra: both concurrent")
	}
}

func VHSetRangeProduct() {
	vMapOrder(false)
	u := c03universe()
	a, b := c03new("A"), c03new("B")
	a.history("A", u, vParam("KA"))
	b.subset("B", u)
	na, nb := len(a.model), len(b.model)
	if vChoose("which", 2) == 0 {
		stop := vChoose("stop", na+2)
		nestAt := vChoose("nestAt", na+1) // 0: never; else the callback reads the set during that invocation
		calls := 0
		var seen []int
		vMapOrder(true)
		a.set.Range(func(x int) bool {
			calls++
			seen = append(seen, x)
			if calls == nestAt {
				// read-only re-entrancy: membership, size, a complete nested Range, a Slice
				vAssert(a.set.Has(x), "the member being enumerated is a member")
				vAssert(a.set.Len() == na, "Len inside a Range callback")
				inner := 0
				a.set.Range(func(y int) bool {
					inner++
					vAssert(a.model[y], "a nested Range enumerates only members")
					return true
				})
				vAssert(inner == na, "a Range nested inside a Range callback enumerates every member")
				vAssert(len(a.set.Slice()) == na, "Slice inside a Range callback")
			}
			return calls < stop
		})
		want := na
		if stop < na {
			want = stop
			if stop == 0 {
				want = 1
			}
		}
		if na == 0 {
			want = 0
		}
		vMapOrder(false)
		vAssert(calls == want, "Range stops as soon as its callback says so, else enumerates every member")
		for i, x := range seen {
			vAssert(a.model[x], "Range enumerates only members")
			for j := 0; j < i; j++ {
				vAssert(seen[j] != x, "Range enumerates no member twice")
			}
		}
		if calls >= 2 {
			vCover("range >= 2 callbacks")
		}
		return
	}
	vMapOrder(true)
	prod := sets.CartesianProduct(a.set, b.set)
	vMapOrder(false)
	vAssert(len(prod) == na*nb, "CartesianProduct yields |A|*|B| pairs")
	for i, pr := range prod {
		vAssert(a.model[pr.A], "product pair: first component from A")
		vAssert(b.model[pr.B], "product pair: second component from B")
		for j := 0; j < i; j++ {
			vAssert(prod[j].A != pr.A || prod[j].B != pr.B, "product pairs are pairwise distinct")
		}
	}
	if na >= 2 && nb >= 2 {
		vCover("product 2x2")
	}
}

func VHSetCtors() {
	n := vChoose("n", vParam("NC")+1)
	in := make([]int, n)
	for i := range in {
		in[i] = vInt("e")
	}
	m := map[int]int{}
	model := map[int]bool{}
	for i, x := range in {
		model[x] = true
		m[i] = x
	}
	p := vInt("probe")
	var s sets.Set[int]
	switch vChoose("ctor", 6) {
	case 0:
		s = maps.NewSetFromSlice(in)
	case 1:
		s = NewSetFromSlice(in)
	case 2:
		s = maps.NewSetFromValues(m)
	case 3:
		s = NewSetFromValues(m)
	case 4:
		s = maps.NewSetFromKeys(m)
		model = map[int]bool{}
		for i := range in {
			model[i] = true
		}
	case 5:
		s = NewSetFromKeys(m)
		model = map[int]bool{}
		for i := range in {
			model[i] = true
		}
	}
	vAssert(s.Len() == len(model), "NewSetFrom*: one member per distinct value")
	for _, x := range in {
		_ = x
	}
	vAssert(s.Has(p) == model[p], "NewSetFrom*: membership agrees with the input")
	for _, x := range s.Slice() {
		vAssert(model[x], "NewSetFrom*: only input values are members")
	}
	if n >= 2 {
		vCover("ctors n >= 2")
	}
}

// VHSetSelf: the second operand is the receiver itself ("for all sets A and B" includes B = A).
func VHSetSelf() {
	vMapOrder(false)
	u := c03universe()
	a := c03new("A")
	a.history("A", u, vParam("KA"))
	a.subset("A", u)
	p := vInt("probe")
	ma := a.model
	n := len(ma)
	c03agrees(a.set, ma, u, p, "A before")
	op := vChoose("op", 6)
	var r sets.Set[int]
	var exp map[int]bool
	vMapOrder(true)
	defer vMapOrder(false)
	switch op {
	case 0:
		r = a.set.Union(a.set)
		exp = c03expect(u, func(x int) bool { return ma[x] })
	case 1:
		r = a.set.Intersect(a.set)
		exp = c03expect(u, func(x int) bool { return ma[x] })
	case 2:
		r = a.set.SetDiff(a.set)
		exp = map[int]bool{}
	case 3:
		r = a.set.SymDiff(a.set)
		exp = map[int]bool{}
	case 4:
		got := a.set.AddSet(a.set)
		vMapOrder(false)
		vAssert(got == 0, "A.AddSet(A) gains nothing")
		c03agrees(a.set, ma, u, p, "A after A.AddSet(A)")
		return
	case 5:
		got := a.set.RemoveSet(a.set)
		vMapOrder(false)
		vAssert(got == n, "A.RemoveSet(A) loses every member")
		c03agrees(a.set, map[int]bool{}, u, p, "A after A.RemoveSet(A)")
		if n >= 2 {
			vCover("setself: RemoveSet of itself, |A| >= 2")
		}
		return
	}
	vMapOrder(false)
	c03agrees(r, exp, u, p, "result (self operand)")
	c03agrees(a.set, ma, u, p, "A unchanged by the operation (self operand)")
	r.Add(p)
	for _, x := range u {
		r.Remove(x)
	}
	c03agrees(a.set, ma, u, p, "A unchanged by mutating the result (self operand)")
	if n >= 2 {
		vCover("setself: algebra with itself, |A| >= 2")
	}
}

// VHSetString: String() of either implementation lists every member exactly once and nothing
// else (concrete members; iteration orders explored as configured).
func VHSetString() {
	vMapOrder(false)
	cands := []int{-3, 7, 12}
	s := c03new("S")
	mask := vChoose("members", 8)
	n := 0
	for i, x := range cands {
		if mask&(1<<i) != 0 {
			s.set.Add(x)
			n++
		}
	}
	if s.conc && vChoose("promote", 2) == 1 {
		s.set.Len()
	}
	if s.conc && n > 0 && vChoose("removeOne", 2) == 1 {
		// a removed member must not be printed
		for i, x := range cands {
			if mask&(1<<i) != 0 {
				s.set.Remove(x)
				mask &^= 1 << i
				n--
				break
			}
		}
	}
	vMapOrder(true)
	text := s.set.String()
	vMapOrder(false)
	got := vParseInts(text)
	vAssert(len(got) == n, "String lists every member exactly once (count)")
	for i, x := range cands {
		c := 0
		for _, g := range got {
			if g == x {
				c++
			}
		}
		want := 0
		if mask&(1<<i) != 0 {
			want = 1
		}
		vAssert(c == want, "String lists exactly the members")
	}
	if n >= 2 {
		vCover("set string: >= 2 members")
	}
}
