//go:build go1.20

package typ

// C20 (continued) — IsZero/Coal/IsNil instantiated with pointer and interface types: the
// IsZero method must be honoured wherever the dynamic value's method set has it.
// (interface types satisfy comparable from Go 1.20 on, hence the build constraint.)

type c20PZeroer struct{ a int }

func (z *c20PZeroer) IsZero() bool { return z.a == 9 }

type c20Zero interface{ IsZero() bool }

func VHUtilIface() {
	x := vInt("x")
	// pointer to a type whose value-receiver IsZero is in the pointer's method set
	vz := &c20Zeroer{x}
	vAssert(IsZero(vz) == (x == 7), "IsZero(*T) honours T's value-receiver IsZero method")
	var nvz *c20Zeroer
	vAssert(IsZero(nvz), "IsZero(nil *T) is true")
	// pointer-receiver method
	pz := &c20PZeroer{x}
	vAssert(IsZero(pz) == (x == 9), "IsZero(*T) honours a pointer-receiver IsZero method")
	vAssert(IsZero(c20PZeroer{x}) == (x == 0), "IsZero(T) with only a pointer-receiver method compares with the zero value")
	// interface-typed T: the dynamic value decides
	vAssert(IsZero[any](c20Zeroer{x}) == (x == 7), "IsZero[any] honours the dynamic value's IsZero method (a non-nil interface is zero only if the method says so)")
	vAssert(IsZero[any](x) == false, "IsZero[any](int) is false: a non-nil interface without the method")
	vAssert(IsZero[any](nil), "IsZero[any](nil) is true")
	vAssert(IsZero[c20Zero](c20Zeroer{x}) == (x == 7), "IsZero[interface] honours the method")
	vAssert(IsZero[c20Zero](pz) == (x == 9), "IsZero[interface] holding a pointer honours the method")
	// Coal over interface values
	vAssert(Coal[any](nil, x, "s") == any(x), "Coal[any] returns the first non-nil interface")
	vAssert(Coal[any](nil, nil) == nil, "Coal[any] of nils is nil")
	// IsNil of interface-typed values holding typed nils
	var e error
	vAssert(IsNil(e), "IsNil(error(nil))")
	vAssert(!IsNil[any](nvz), "IsNil(any((*T)(nil))) is false")
	vAssert(DerefZero(vz) == c20Zeroer{x}, "DerefZero(*struct)")
	vAssert(DerefZero(nvz) == c20Zeroer{}, "DerefZero(nil *struct) is the zero struct")
	vCover("utiliface end")
}
