package typ

// C20 with many arguments: Min, Max, Sum, Product and Coal on 13..70 arguments (every length in
// that range, so block-wise or unrolled scans meet every remainder), with the extreme / the
// first non-zero value at a symbolic position and symbolic values at three places. For int16
// and float64.

func VHManyArgs() {
	n := 13 + vChoose("n", 58)
	p := vChoose("pos", n) // where the extreme sits
	base, ext, hi := vInt16("base"), vInt16("lo"), vInt16("hi")
	vAssume(vAnd(ext < base, base < hi))
	mins := make([]int16, n)
	maxs := make([]int16, n)
	for i := range mins {
		mins[i], maxs[i] = base, base
	}
	mins[p], maxs[p] = ext, hi
	vAssert(Min(mins...) == ext, "many arguments: Min finds the least value wherever it is")
	vAssert(Max(maxs...) == hi, "many arguments: Max finds the greatest value wherever it is")
	vAssert(Max(mins...) == base || n == 1, "many arguments: Max of the same list")
	vAssert(Min(maxs...) == base || n == 1, "many arguments: Min of the same list")
	fm := make([]float64, n)
	for i := range fm {
		fm[i] = float64(i%7) + 0.5
	}
	fm[p] = -2.25
	vAssert(Min(fm...) == -2.25, "many arguments: Min (float64)")
	fm[p] = 99.5
	vAssert(Max(fm...) == 99.5, "many arguments: Max (float64)")
	// Sum / Product: wrapping int16 arithmetic with three symbolic values among ones and twos
	vals := make([]int16, n)
	s, pr := int16(0), int16(1)
	for i := range vals {
		vals[i] = int16(1 + i%2)
	}
	vals[p] = ext
	vals[0] = base
	vals[n-1] = hi
	for _, v := range vals {
		s += v
		pr *= v
	}
	vAssert(Sum(vals...) == s, "many arguments: Sum is the wrapping sum of all arguments")
	vAssert(Product(vals...) == pr, "many arguments: Product is the wrapping product of all arguments")
	// Coal: the first non-zero value
	cs := make([]int16, n)
	cs[p] = hi
	if p+1 < n {
		cs[p+1] = base
	}
	want := hi
	if hi == 0 {
		want = 0
		if p+1 < n {
			want = base
		}
	}
	vAssert(Coal(cs...) == want, "many arguments: Coal returns the first non-zero value")
	vCover("many args done")
}
