package typ

// C20 — numeric and utility helpers over the whole value range.
// One generic harness per helper, instantiated for every integer and float type;
// the type is a case split (vChoose), the values are symbolic over the full width.

func c20same[T Real](a, b T) bool { return vOr(a == b, vAnd(a != a, b != b)) }

func c20args[T Real](mk func(string) T, n int) []T {
	args := make([]T, n)
	for i := range args {
		args[i] = mk("a")
		vAssume(args[i] == args[i]) // NaN excluded by the property
	}
	return args
}

func c20MinMax[T Real](mk func(string) T) {
	n := vChoose("nargs", vParam("K")) + 1
	args := c20args(mk, n)
	mn := Min(args...)
	mx := Max(args...)
	isMin, isMax := false, false
	for _, a := range args {
		vAssert(mn <= a, "Min is <= every argument")
		vAssert(mx >= a, "Max is >= every argument")
		isMin = vOr(isMin, mn == a)
		isMax = vOr(isMax, mx == a)
	}
	vAssert(isMin, "Min returns one of its arguments")
	vAssert(isMax, "Max returns one of its arguments")
	if n >= 3 {
		vCover("minmax 3+ args")
	}
	vAssert(vPanics(func() { Min[T]() }), "Min() with no argument panics")
	vAssert(vPanics(func() { Max[T]() }), "Max() with no argument panics")
}

func c20Clamp[T Real](mk func(string) T) {
	a := c20args(mk, 3)
	v, lo, hi := a[0], a[1], a[2]
	vAssume(lo <= hi)
	got := Clamp(v, lo, hi)
	vAssert(vImplies(v < lo, got == lo), "Clamp below range returns lo")
	vAssert(vImplies(v > hi, got == hi), "Clamp above range returns hi")
	vAssert(vImplies(vAnd(lo <= v, v <= hi), got == v), "Clamp inside range returns v")
	g01 := Clamp01(v)
	vAssert(vImplies(v < 0, g01 == 0), "Clamp01 below 0 returns 0")
	vAssert(vImplies(v > 1, g01 == 1), "Clamp01 above 1 returns 1")
	vAssert(vImplies(vAnd(0 <= v, v <= 1), g01 == v), "Clamp01 inside [0,1] returns v")
}

func c20SumProduct[T Real](mk func(string) T) {
	n := vChoose("nargs", vParam("K")+1)
	args := c20args(mk, n)
	var s T
	var p T = 1
	for _, a := range args {
		s += a
		p *= a
	}
	vAssert(c20same(Sum(args...), s), "Sum is left-to-right wrapping +, 0 for no arguments")
	vAssert(c20same(Product(args...), p), "Product is left-to-right wrapping *, 1 for no arguments")
	if n == 0 {
		vAssert(Sum[T]() == 0, "Sum() == 0")
		vAssert(Product[T]() == 1, "Product() == 1")
		vCover("sum/product no args")
	}
	if n >= 2 {
		vCover("sum/product 2+ args")
	}
}

func c20AbsSigned[T Real](mk func(string) T) {
	v := mk("v")
	vAssume(v == v)
	vAssume(vOr(-v != v, v == 0)) // magnitude representable: excludes the minimum of a signed integer type
	r := Abs(v)
	vAssert(vOr(r == v, r == -v), "Abs(v) is v or -v")
	vAssert(r >= 0, "Abs(v) >= 0")
	vAssert(vImplies(v >= 0, r == v), "Abs keeps non-negative values")
}

func c20AbsUnsigned[T Unsigned](mk func(string) T) {
	v := mk("v")
	vAssert(Abs(v) == v, "Abs of an unsigned value is the value")
}

func c20CompareLess[T Real](mk func(string) T) {
	a := c20args(mk, 2)
	c := Compare(a[0], a[1])
	vAssert(vImplies(a[0] > a[1], c == 1), "Compare: +1 when a > b")
	vAssert(vImplies(a[0] < a[1], c == -1), "Compare: -1 when a < b")
	vAssert(vImplies(a[0] == a[1], c == 0), "Compare: 0 when a == b")
	vAssert(vOr(c == 0, vOr(c == 1, c == -1)), "Compare returns -1, 0 or 1")
	vAssert(Less(a[0], a[1]) == (a[0] < a[1]), "Less agrees with <")
}

func c20Digits[T Integer](mk func(string) T) {
	v := mk("v")
	neg := v < 0
	w := int(int64(v)) // widen first ...
	m := uint64(vIte(neg, -w, w))
	got := Digits10(v)
	p := uint64(1)
	for d := 1; d <= 20; d++ {
		lo := p
		if d == 1 {
			lo = 0
		}
		in := lo <= m
		if d < 20 {
			p *= 10
			in = vAnd(in, m < p)
		}
		vAssert((got == d) == in, "Digits10(v) is the number of decimal digits of |v|")
	}
	vAssert(DigitsSign10(v) == got+vB2I(neg), "DigitsSign10(v) adds one exactly for negative v")
	if got >= 3 {
		vCover("digits >= 3")
	}
}

func c20Coal[T Integer](mk func(string) T) {
	n := vChoose("nargs", vParam("K")+1)
	args := make([]T, n)
	for i := range args {
		args[i] = mk("a")
	}
	got := Coal(args...)
	allZeroBefore := true
	for _, a := range args {
		vAssert(vImplies(vAnd(allZeroBefore, a != 0), got == a), "Coal returns the first non-zero argument")
		allZeroBefore = vAnd(allZeroBefore, a == 0)
	}
	vAssert(vImplies(allZeroBefore, got == 0), "Coal returns zero when every argument is zero")
	if n >= 2 {
		vCover("coal 2+ args")
	}
}

func c20pick(f8 func(), f16 func(), f32 func(), f64 func(), fi func(), u8 func(), u16 func(), u32 func(), u64 func(), u func(), up func(), fl32 func(), fl64 func()) {
	fs := []func(){f8, f16, f32, f64, fi, u8, u16, u32, u64, u, up, fl32, fl64}
	var live []func()
	for _, f := range fs {
		if f != nil {
			live = append(live, f)
		}
	}
	live[vChoose("type", len(live))]()
}

func VHMinMax() {
	c20pick(func() { c20MinMax(vInt8) }, func() { c20MinMax(vInt16) }, func() { c20MinMax(vInt32) }, func() { c20MinMax(vInt64) },
		func() { c20MinMax(vInt) }, func() { c20MinMax(vUint8) }, func() { c20MinMax(vUint16) }, func() { c20MinMax(vUint32) },
		func() { c20MinMax(vUint64) }, func() { c20MinMax(vUint) }, func() { c20MinMax(vUintptr) },
		func() { c20MinMax(vFloat32) }, func() { c20MinMax(vFloat64) })
}

func VHClamp() {
	c20pick(func() { c20Clamp(vInt8) }, func() { c20Clamp(vInt16) }, func() { c20Clamp(vInt32) }, func() { c20Clamp(vInt64) },
		func() { c20Clamp(vInt) }, func() { c20Clamp(vUint8) }, func() { c20Clamp(vUint16) }, func() { c20Clamp(vUint32) },
		func() { c20Clamp(vUint64) }, func() { c20Clamp(vUint) }, func() { c20Clamp(vUintptr) },
		func() { c20Clamp(vFloat32) }, func() { c20Clamp(vFloat64) })
}

func VHSumProduct() {
	c20pick(func() { c20SumProduct(vInt8) }, func() { c20SumProduct(vInt16) }, func() { c20SumProduct(vInt32) }, func() { c20SumProduct(vInt64) },
		func() { c20SumProduct(vInt) }, func() { c20SumProduct(vUint8) }, func() { c20SumProduct(vUint16) }, func() { c20SumProduct(vUint32) },
		func() { c20SumProduct(vUint64) }, func() { c20SumProduct(vUint) }, func() { c20SumProduct(vUintptr) },
		func() { c20SumProduct(vFloat32) }, func() { c20SumProduct(vFloat64) })
}

func VHAbs() {
	c20pick(func() { c20AbsSigned(vInt8) }, func() { c20AbsSigned(vInt16) }, func() { c20AbsSigned(vInt32) }, func() { c20AbsSigned(vInt64) },
		func() { c20AbsSigned(vInt) }, func() { c20AbsUnsigned(vUint8) }, func() { c20AbsUnsigned(vUint16) }, func() { c20AbsUnsigned(vUint32) },
		func() { c20AbsUnsigned(vUint64) }, func() { c20AbsUnsigned(vUint) }, func() { c20AbsUnsigned(vUintptr) },
		func() { c20AbsSigned(vFloat32) }, func() { c20AbsSigned(vFloat64) })
}

func VHCompareLess() {
	c20pick(func() { c20CompareLess(vInt8) }, func() { c20CompareLess(vInt16) }, func() { c20CompareLess(vInt32) }, func() { c20CompareLess(vInt64) },
		func() { c20CompareLess(vInt) }, func() { c20CompareLess(vUint8) }, func() { c20CompareLess(vUint16) }, func() { c20CompareLess(vUint32) },
		func() { c20CompareLess(vUint64) }, func() { c20CompareLess(vUint) }, func() { c20CompareLess(vUintptr) },
		func() { c20CompareLess(vFloat32) }, func() { c20CompareLess(vFloat64) })
}

func VHDigits() {
	c20pick(func() { c20Digits(vInt8) }, func() { c20Digits(vInt16) }, func() { c20Digits(vInt32) }, func() { c20Digits(vInt64) },
		func() { c20Digits(vInt) }, func() { c20Digits(vUint8) }, func() { c20Digits(vUint16) }, func() { c20Digits(vUint32) },
		func() { c20Digits(vUint64) }, func() { c20Digits(vUint) }, func() { c20Digits(vUintptr) }, nil, nil)
}

func VHCoal() {
	c20pick(func() { c20Coal(vInt8) }, func() { c20Coal(vInt16) }, func() { c20Coal(vInt32) }, func() { c20Coal(vInt64) },
		func() { c20Coal(vInt) }, func() { c20Coal(vUint8) }, func() { c20Coal(vUint16) }, func() { c20Coal(vUint32) },
		func() { c20Coal(vUint64) }, func() { c20Coal(vUint) }, func() { c20Coal(vUintptr) }, nil, nil)
}

// VHCoalTypes: Coal compares with the zero value (==), whatever the type says about itself: a
// value whose IsZero method reports true but which is not the zero value is a non-zero argument;
// strings, pointers, structs and interface values as well.
func VHCoalTypes() {
	a, b := vInt("a"), vInt("b")
	z7, zb := c20Zeroer{7}, c20Zeroer{b}
	want := z7 // IsZero() is true for it, but it is not the zero value
	vAssert(Coal(c20Zeroer{}, z7, zb) == want, "Coal returns the first argument that differs from the zero value (IsZero methods are not consulted)")
	vAssert(Coal(c20Zeroer{}, c20Zeroer{a}) == c20Zeroer{a}, "Coal on a struct type: the first non-zero argument, or zero")
	vAssert(Coal[c20Zeroer]() == c20Zeroer{}, "Coal without arguments is zero")
	s1, s2 := "", "x"
	vAssert(Coal(s1, s2, "y") == "x" && Coal(s1, s1) == "", "Coal on strings")
	p := &a
	var np *int
	vAssert(Coal(np, p) == p && Coal(np, np) == nil, "Coal on pointers")
	vAssert(Coal(c20Plain{}, c20Plain{a, false}, c20Plain{1, true}) == vIteP(a != 0, c20Plain{a, false}, c20Plain{1, true}), "Coal on a plain struct")
	vCover("coal types done")
}

// vIteP: if-then-else on plain structs (forks)
func vIteP(c bool, x, y c20Plain) c20Plain {
	if c {
		return x
	}
	return y
}

// ---- utilities ----

type c20Zeroer struct{ a int }

func (z c20Zeroer) IsZero() bool { return z.a == 7 }

type c20Plain struct {
	a int
	b bool
}

func VHUtil() {
	x, y := vInt("x"), vInt("y")
	c := vBool("c")
	// Zero / ZeroOf
	vAssert(Zero[int]() == 0, "Zero[int]")
	vAssert(Zero[string]() == "", "Zero[string]")
	vAssert(Zero[*int]() == nil, "Zero[*int]")
	vAssert(Zero[c20Plain]() == c20Plain{}, "Zero[struct]")
	vAssert(ZeroOf(x) == 0, "ZeroOf(int)")
	vAssert(ZeroOf(c20Plain{x, c}) == c20Plain{}, "ZeroOf(struct)")
	// IsZero
	vAssert(IsZero(x) == (x == 0), "IsZero(int) iff == 0")
	vAssert(IsZero(c) == !c, "IsZero(bool) iff false")
	vAssert(IsZero(c20Plain{x, c}) == vAnd(x == 0, !c), "IsZero(struct) iff all fields zero")
	vAssert(IsZero(c20Zeroer{x}) == vOr(x == 0, x == 7), "IsZero honours an IsZero method")
	var np *int
	vAssert(IsZero(np), "IsZero(nil pointer)")
	vAssert(!IsZero(&x), "IsZero(non-nil pointer) is false")
	// Tern / TernCast
	vAssert(Tern(c, x, y) == vIte(c, x, y), "Tern selects by the condition")
	vAssert(TernCast[int](true, any(x), y) == x, "TernCast(true) casts the value")
	vAssert(TernCast[int](false, any("s"), y) == y, "TernCast(false) returns the fallback without casting")
	vAssert(vPanics(func() { TernCast[int](true, any("s"), y) }), "TernCast(true) with a wrong dynamic type panics")
	vAssert(TernCast[int](c, any(x), y) == vIte(c, x, y), "TernCast with a symbolic condition")
	// Ref / DerefZero
	p := Ref(x)
	q := Ref(x)
	vAssert(p != nil, "Ref returns a non-nil pointer")
	vAssert(*p == x, "Ref points to a copy of the value")
	vAssert(p != q, "Ref returns a fresh pointer each time")
	*p = y
	vAssert(*q == x, "writing through one Ref does not affect another")
	vAssert(DerefZero(p) == y, "DerefZero(non-nil) dereferences")
	vAssert(DerefZero(np) == 0, "DerefZero(nil) is zero")
	// IsNil on interface-typed values
	var e error
	var ea any = e
	vAssert(IsNil(any(nil)), "IsNil(any(nil))")
	vAssert(IsNil(e), "IsNil(error(nil))")
	vAssert(IsNil(ea), "IsNil(any(error(nil)))")
	vAssert(!IsNil(any(x)), "IsNil(any(int)) is false")
	vAssert(!IsNil(any("")), "IsNil(any(\"\")) is false")
	vAssert(!IsNil(any(np)), "IsNil(any((*int)(nil))) is false: the interface is not nil")
	vAssert(!IsNil(x), "IsNil(int) is false")
	vAssert(!IsNil(""), "IsNil(string) is false")
	// Coal on non-numeric comparable types
	vAssert(Coal("", "a", "b") == "a", "Coal on strings")
	vAssert(Coal[string]() == "", "Coal() is zero")
	vAssert(Coal(np, p, q) == p, "Coal on pointers")
	vCover("util end")
}

// VHSumProductLong: Sum and Product over 0..12 arguments. For the integer types wrapping + and *
// are associative, so any grouping is right; for floats the order matters, and with concrete
// values of very different magnitudes a sum that is not evaluated strictly left to right rounds
// differently (symbolic floats at this length are beyond the solvers; the values here are
// concrete, the lengths and patterns are enumerated).
func VHSumProductLong() {
	n := vChoose("n", 13)
	pat := vChoose("pattern", 4)
	vals := make([]float64, n)
	for i := range vals {
		switch pat {
		case 0: // one huge value first, then ones
			vals[i] = 1
			if i == 0 {
				vals[i] = 1e16
			}
		case 1: // alternating huge and tiny, cancelling
			vals[i] = []float64{1e16, 1, -1e16, 1}[i%4]
		case 2: // growing magnitudes
			vals[i] = float64(i+1) * 0.1
		case 3: // a huge value in the middle of each block of four
			vals[i] = 1.5
			if i%4 == 2 {
				vals[i] = -3e15
			}
		}
	}
	sum, prod := 0.0, 1.0
	for _, v := range vals {
		sum += v
		prod *= v
	}
	vAssert(vSameF64(Sum(vals...), sum), "Sum (float64, up to 12 arguments) is left-to-right +, 0 for no arguments")
	vAssert(vSameF64(Product(vals...), prod), "Product (float64, up to 12 arguments) is left-to-right *, 1 for no arguments")
	v32 := make([]float32, n)
	s32, p32 := float32(0), float32(1)
	for i := range v32 {
		v32[i] = float32(vals[i])
		if pat == 0 && i == 0 {
			v32[i] = 1e8
		}
		s32 += v32[i]
		p32 *= v32[i]
	}
	vAssert(vSameF32(Sum(v32...), s32), "Sum (float32, up to 12 arguments) is left-to-right +")
	vAssert(vSameF32(Product(v32...), p32), "Product (float32, up to 12 arguments) is left-to-right *")
	// integers: wrapping arithmetic with symbolic values at the same lengths
	iv := make([]int8, n)
	is, ip := int8(0), int8(1)
	for i := range iv {
		iv[i] = vInt8("i")
		is += iv[i]
		ip *= iv[i]
	}
	vAssert(Sum(iv...) == is, "Sum (int8, up to 12 arguments) is wrapping +")
	if n <= 6 {
		vAssert(Product(iv...) == ip, "Product (int8, up to 6 arguments) is wrapping *")
	}
	if n >= 9 {
		vCover("sumproduct long: >= 9 arguments")
	}
}
