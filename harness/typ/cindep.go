package typ

// The numeric and utility helpers are functions of their arguments: calls from different
// goroutines must not influence each other (C20).

func cindepRun(seed int, off int) []int {
	var out []int
	a, b, c := 3+seed+off, -7+off, 12*seed+off
	out = append(out, Min(a, b, c), Max(a, b, c), Clamp(a, b, c), Sum(a, b, c), Product(a, b, c), Abs(b))
	out = append(out, Digits10(c), DigitsSign10(b), Compare(a, b), Coal(0, a, b), Tern(a < b, a, b), DerefZero(Ref(c)))
	if Less(a, b) || IsZero(a-a) {
		out = append(out, 1)
	}
	out = append(out, int(Clamp01(float64(seed)-0.5)*10), TernCast[int](seed == 1, any(a), b))
	return out
}

func VHIndepConc() {
	off := vInt("off")
	vAssume(vAnd(off >= -1000, off <= 1000))
	expA, expB := cindepRun(1, off), cindepRun(2, off)
	var gotA, gotB []int
	vGo(func() { gotA = cindepRun(1, off) })
	vGo(func() { gotB = cindepRun(2, off) })
	vAssert(vWait(), "helpers: both goroutines finish")
	vAssert(len(gotA) == len(expA) && len(gotB) == len(expB), "helpers called concurrently give the sequential results (length)")
	for i := range expA {
		if i < len(gotA) {
			vAssert(gotA[i] == expA[i], "helpers called concurrently give the sequential results")
		}
	}
	for i := range expB {
		if i < len(gotB) {
			vAssert(gotB[i] == expB[i], "helpers called concurrently give the sequential results")
		}
	}
	vCover("indep conc done")
}
