package slices

import "gopkg.in/typ.v4"

// C15 per element type: Sort, SortDesc and BinarySearch instantiated for uint8, int8, int16,
// uint64 and string as well (a generic function may treat an element type specially - counting
// sort for bytes, radix passes for words - so each instantiation is its own code). N symbolic
// values of the type, unconstrained, so the extremes of the type are included; plus fixed
// inputs that hold the type's minimum and maximum several times over.

func c15typed[E typ.Ordered](in []E, what string) {
	n := len(in)
	for _, desc := range []bool{false, true} {
		s := append([]E(nil), in...)
		if desc {
			SortDesc(s)
		} else {
			Sort(s)
		}
		vAssert(len(s) == n, what+": Sort keeps the length")
		for i := 1; i < len(s); i++ {
			if desc {
				vAssert(s[i-1] >= s[i], what+": SortDesc: descending order")
			} else {
				vAssert(s[i-1] <= s[i], what+": Sort: ascending order")
			}
		}
		for _, x := range in {
			a, b := 0, 0
			for i := range in {
				a += vB2I(in[i] == x)
			}
			for i := range s {
				b += vB2I(s[i] == x)
			}
			vAssert(a == b, what+": the result is a permutation of the input")
		}
		if !desc && n > 0 {
			k := vChoose(what+".probe", n)
			i := BinarySearch(s, in[k])
			vAssert(i >= 0 && i < n && s[i] == in[k], what+": BinarySearch finds a present value")
			if i > 0 {
				vAssert(s[i-1] < in[k], what+": BinarySearch returns the first position of the value")
			}
		}
	}
}

func VHSortElemTypes() {
	n := vChoose("n", vParam("NT")+1)
	fixed := vChoose("fixed", 2) == 1
	switch vChoose("type", 5) {
	case 0:
		s := make([]uint8, n)
		for i := range s {
			s[i] = vUint8("u8")
		}
		if fixed {
			s = []uint8{255, 1, 0, 255, 3, 0, 254, 255}
		}
		c15typed(s, "uint8")
	case 1:
		s := make([]int8, n)
		for i := range s {
			s[i] = vInt8("i8")
		}
		if fixed {
			s = []int8{127, -128, 0, 127, -1, -128, 126, 127}
		}
		c15typed(s, "int8")
	case 2:
		s := make([]int16, n)
		for i := range s {
			s[i] = vInt16("i16")
		}
		if fixed {
			s = []int16{32767, -32768, 0, 32767, -1, -32768, 256, 255}
		}
		c15typed(s, "int16")
	case 3:
		s := make([]uint64, n)
		for i := range s {
			s[i] = vUint64("u64")
		}
		if fixed {
			s = []uint64{1<<64 - 1, 0, 1 << 63, 1<<64 - 1, 1 << 32, 0, 1<<63 - 1, 255}
		}
		c15typed(s, "uint64")
	case 4:
		words := []string{"", "a", "ab", "b", "a\x00", "\xff", "aa", "B"}
		s := make([]string, n)
		for i := range s {
			s[i] = words[vChoose("word", len(words))]
		}
		if fixed {
			s = append([]string(nil), words...)
		}
		c15typed(s, "string")
	}
	vCover("sort elem types done")
}
