package slices

// C12 — slice splicing helpers equal the splice model for every index and capacity.

// c12slice builds a slice of n symbolic ints with e spare capacity; the spare part of
// the backing array holds arbitrary (symbolic) values too.
func c12slice(name string, maxN int) (s, snap, full []int) {
	n := vChoose(name+".len", maxN+1)
	e := vChoose(name+".spare", vParam("E")+1)
	full = make([]int, n+e)
	for i := range full {
		full[i] = vInt(name)
	}
	s = full[:n]
	snap = append([]int(nil), s...)
	return
}

func VHInsert() {
	s, snap, _ := c12slice("s", vParam("N"))
	n := len(s)
	i := vRange("i", 0, n)
	v := vInt("v")
	Insert(&s, i, v)
	vAssert(len(s) == n+1, "Insert: length grows by one")
	for j := 0; j <= n; j++ {
		exp := v
		if j < n {
			exp = vIte(j < i, snap[j], exp)
		}
		if j > 0 {
			exp = vIte(j > i, snap[j-1], exp)
		}
		vAssert(s[j] == exp, "Insert: result is the input with v spliced in at index")
	}
	if n >= 2 && cap(snap) >= 0 {
		vCover("insert n >= 2")
	}
}

func VHInsertSlice() {
	s, snap, _ := c12slice("s", vParam("N"))
	n := len(s)
	m := vChoose("m", vParam("M")+1)
	vs := make([]int, m)
	for k := range vs {
		vs[k] = vInt("v")
	}
	vsnap := append([]int(nil), vs...)
	i := vRange("i", 0, n)
	InsertSlice(&s, i, vs)
	vAssert(len(s) == n+m, "InsertSlice: length grows by len(values)")
	for j := 0; j < n+m; j++ {
		exp := 0
		if j < n {
			exp = snap[j] // j < i
		}
		for k := 0; k < m; k++ {
			exp = vIte(j == i+k, vsnap[k], exp)
		}
		if j >= m {
			exp = vIte(j >= i+m, snap[j-m], exp)
		}
		vAssert(s[j] == exp, "InsertSlice: result is the input with values spliced in at index")
	}
	for k := range vs {
		vAssert(vs[k] == vsnap[k], "InsertSlice: inserted slice unchanged")
	}
	if m >= 2 && n >= 2 {
		vCover("insertslice m >= 2, n >= 2")
	}
}

func VHRemove() {
	s, snap, _ := c12slice("s", vParam("N"))
	n := len(s)
	vAssume(n >= 1)
	i := vRange("i", 0, n-1)
	Remove(&s, i)
	vAssert(len(s) == n-1, "Remove: length shrinks by one")
	for j := 0; j < n-1; j++ {
		vAssert(s[j] == vIte(j < i, snap[j], snap[j+1]), "Remove: result is the input without element index")
	}
	if n >= 3 {
		vCover("remove n >= 3")
	}
}

func VHRemoveSlice() {
	s, snap, _ := c12slice("s", vParam("N"))
	n := len(s)
	i := vRange("i", 0, n)
	l := vRange("l", 0, n)
	vAssume(i+l <= n)
	RemoveSlice(&s, i, l)
	ll := n - len(s)
	vAssert(ll == l, "RemoveSlice: length shrinks by length")
	for j := 0; j < len(s); j++ {
		exp := snap[j]
		if j+ll < n {
			exp = vIte(j < i, snap[j], snap[j+ll])
		}
		vAssert(s[j] == exp, "RemoveSlice: result is the input without [index, index+length)")
	}
	if ll >= 2 && len(s) >= 2 {
		vCover("removeslice l >= 2 with survivors")
	}
}

func VHFillRepeatReverse() {
	s, snap, full := c12slice("s", vParam("NF"))
	n := len(s)
	// Reverse
	Reverse(s)
	for j := 0; j < n; j++ {
		vAssert(s[j] == snap[n-1-j], "Reverse: out[j] == in[n-1-j]")
	}
	for j := n; j < len(full); j++ {
		_ = full[j]
	}
	// Fill
	v := vInt("v")
	fsnap := append([]int(nil), full...)
	Fill(s, v)
	for j := 0; j < n; j++ {
		vAssert(s[j] == v, "Fill: every element equals the value")
	}
	for j := n; j < len(full); j++ {
		vAssert(full[j] == fsnap[j], "Fill: nothing beyond len is written")
	}
	// Repeat
	c := vRange("count", 0, vParam("NF"))
	r := Repeat(v, c)
	vAssert(len(r) == c, "Repeat: length is count")
	for j := range r {
		vAssert(r[j] == v, "Repeat: every element equals the value")
	}
	if n >= 5 {
		vCover("fill n >= 5 (second doubling)")
	}
}

func VHConcatCloneGrow() {
	a, asnap, afull := c12slice("a", vParam("N"))
	b, bsnap, bfull := c12slice("b", vParam("M"))
	w := vInt("w")
	c := Concat(a, b)
	vAssert(len(c) == len(a)+len(b), "Concat: length is the sum")
	for j := range c {
		if j < len(a) {
			vAssert(c[j] == asnap[j], "Concat: first part is a")
		} else {
			vAssert(c[j] == bsnap[j-len(a)], "Concat: second part is b")
		}
	}
	vAssert(!vSameArray(c, afull), "Concat: result does not share memory with a")
	vAssert(!vSameArray(c, bfull), "Concat: result does not share memory with b")
	for j := range c {
		c[j] = w
	}
	c = append(c, w)
	cl := Clone(a)
	vAssert(len(cl) == len(a), "Clone: same length")
	for j := range cl {
		vAssert(cl[j] == asnap[j], "Clone: same contents")
	}
	vAssert(!vSameArray(cl, afull), "Clone: result does not share memory with the input")
	for j := range cl {
		cl[j] = w
	}
	cl = append(cl, w)
	for j := range a {
		vAssert(a[j] == asnap[j], "Concat/Clone: writing the result leaves a unchanged")
	}
	for j := range b {
		vAssert(b[j] == bsnap[j], "Concat/Clone: writing the result leaves b unchanged")
	}
	// Grow
	g := vRange("grow", 0, vParam("M"))
	gr := Grow(a, g)
	vAssert(len(gr) == len(a)+g, "Grow: length grows by n")
	for j := range gr {
		if j < len(a) {
			vAssert(gr[j] == asnap[j], "Grow: old prefix kept")
		} else {
			vAssert(gr[j] == 0, "Grow: appended values are zero")
		}
	}
	if len(a) >= 1 && len(b) >= 1 {
		vCover("concat both non-empty")
	}
	if g >= 1 && cap(a) > len(a) {
		vCover("grow into spare capacity")
	}
}

// VHFillLarge: Fill and Repeat "for every length": lengths around powers of two and around
// block sizes of a few thousand elements, for element types whose size is and is not a
// power of two. One path per (type, length); the value is symbolic.
type c12rec struct{ a, b, c int64 }

func c12fillCheck[E comparable](n int, v E) {
	s := make([]E, n+1) // one element of slack that Fill must not touch
	var zero E
	Fill(s[:n], v)
	for i := 0; i < n; i++ {
		vAssert(s[i] == v, "Fill (large): every element equals the value")
	}
	vAssert(s[n] == zero, "Fill (large): nothing beyond len is written")
	r := Repeat(v, n)
	vAssert(len(r) == n, "Repeat (large): length is count")
	for i := range r {
		vAssert(r[i] == v, "Repeat (large): every element equals the value")
	}
}

func VHFillLarge() {
	lens := []int{0, 1, 2, 3, 5, 8, 9, 16, 17, 31, 33, 100, 170, 171, 255, 256, 257, 341, 342, 511, 513,
		1023, 1025, 1364, 1365, 1366, 2047, 2048, 2049}
	if vParam("HUGE") == 1 {
		lens = append(lens, 2731, 3413, 3414, 3415, 4095, 4096, 4097, 5461, 6000)
	}
	n := lens[vChoose("len", len(lens))]
	switch vChoose("type", 4) {
	case 0:
		c12fillCheck(n, vInt("v"))
	case 1:
		c12fillCheck(n, [3]byte{vUint8("v"), vUint8("v"), vUint8("v")})
	case 2:
		c12fillCheck(n, c12rec{vInt64("v"), vInt64("v"), vInt64("v")})
	case 3:
		c12fillCheck(n, [5]uint16{vUint16("v"), vUint16("v"), vUint16("v"), vUint16("v"), vUint16("v")})
	}
	if n >= 2049 {
		vCover("fill large: > 2048 elements")
	}
}

// ---- element types other than int ----
// The helpers are generic: a struct with an IsZero method that disagrees with the zero value,
// pointers, strings and interface values must be spliced, filled and copied as opaque values.

type c12money struct {
	amount   int
	currency int
}

// IsZero reports "no money" whatever the currency: a non-zero value may be IsZero.
func (m c12money) IsZero() bool { return m.amount == 0 }

func VHElemTypes() {
	n := 1 + vChoose("n", vParam("NE"))
	a, c := vInt("amount"), vInt("currency")
	v := c12money{a, c}
	// Fill / Repeat with a struct value
	s := make([]c12money, n, n+1)
	for i := range s {
		s[i] = c12money{vInt("a0"), vInt("c0")}
	}
	spare := s[:n+1]
	spare[n] = c12money{7, 7}
	Fill(s, v)
	for i := range s {
		vAssert(s[i] == v, "Fill (struct with an IsZero method): every element equals the value, field by field")
	}
	vAssert(spare[n] == c12money{7, 7}, "Fill (struct): nothing beyond len is written")
	r := Repeat(v, n)
	vAssert(len(r) == n, "Repeat (struct): length is count")
	for i := range r {
		vAssert(r[i] == v, "Repeat (struct with an IsZero method): every element equals the value")
	}
	// pointers: Fill stores the very pointer, Insert/Remove move pointers
	p, q := &c12money{a, c}, &c12money{}
	ps := make([]*c12money, n)
	Fill(ps, p)
	for i := range ps {
		vAssert(ps[i] == p, "Fill (pointer): every element is the given pointer")
	}
	Insert(&ps, 0, q)
	vAssert(len(ps) == n+1 && ps[0] == q && ps[1] == p, "Insert (pointer): spliced in front")
	Remove(&ps, 0)
	vAssert(len(ps) == n && ps[0] == p, "Remove (pointer): spliced out")
	// interface values holding such a struct
	as := make([]any, n)
	Fill(as, any(v))
	for i := range as {
		vAssert(as[i] == any(v), "Fill (interface): every element equals the value")
	}
	cl := Clone(as)
	vAssert(len(cl) == n && cl[0] == any(v), "Clone (interface): same contents")
	g := Grow(s, 2)
	vAssert(len(g) == n+2 && g[n] == c12money{} && g[n+1] == c12money{}, "Grow (struct): appends zero values")
	for i := 0; i < n; i++ {
		vAssert(g[i] == v, "Grow (struct): keeps the contents")
	}
	Reverse(g)
	vAssert(g[0] == c12money{} && g[len(g)-1] == v, "Reverse (struct)")
	cc := Concat(s, r)
	vAssert(len(cc) == 2*n && cc[0] == v && cc[2*n-1] == v, "Concat (struct)")
	vCover("elem types done")
}

// VHSpliceLong: the splicing and copying helpers on slices of 63..300 elements (around the
// sizes a block-wise implementation would treat specially), at positions near the ends, the
// middle and block boundaries, with and without spare capacity.
func VHSpliceLong() {
	lens := []int{63, 64, 65, 127, 128, 129, 256, 257, 300}
	n := lens[vChoose("len", len(lens))]
	off := vInt("off")
	vAssume(vAnd(off >= -1000000, off <= 1000000))
	spare := []int{0, 1, 64}[vChoose("spare", 3)]
	full := make([]int, n, n+spare)
	for i := range full {
		full[i] = i + off
	}
	pos := []int{0, 1, 63, 64, n / 2, n - 1, n}[vChoose("pos", 7)]
	if pos > n {
		pos = n
	}
	op := vChoose("op", 6)
	s := full
	switch op {
	case 0: // Insert
		Insert(&s, pos, -7+off)
		vAssert(len(s) == n+1, "Insert (long): one element longer")
		for i := range s {
			want := i + off
			if i == pos {
				want = -7 + off
			} else if i > pos {
				want = i - 1 + off
			}
			vAssert(s[i] == want, "Insert (long): spliced in at the position, everything else in place")
		}
	case 1: // InsertSlice of 70 values
		vals := make([]int, 70)
		for i := range vals {
			vals[i] = -100 - i + off
		}
		InsertSlice(&s, pos, vals)
		vAssert(len(s) == n+70, "InsertSlice (long): len grows by the number of values")
		for i := range s {
			want := i + off
			if i >= pos && i < pos+70 {
				want = -100 - (i - pos) + off
			} else if i >= pos+70 {
				want = i - 70 + off
			}
			vAssert(s[i] == want, "InsertSlice (long): spliced in at the position, everything else in place")
		}
	case 2: // Remove
		if pos == n {
			pos = n - 1
		}
		Remove(&s, pos)
		vAssert(len(s) == n-1, "Remove (long): one element shorter")
		for i := range s {
			want := i + off
			if i >= pos {
				want = i + 1 + off
			}
			vAssert(s[i] == want, "Remove (long): spliced out at the position, everything else in place")
		}
	case 3: // RemoveSlice of up to 65 values
		l := 65
		if pos+l > n {
			l = n - pos
		}
		RemoveSlice(&s, pos, l)
		vAssert(len(s) == n-l, "RemoveSlice (long): len shrinks by the length")
		for i := range s {
			want := i + off
			if i >= pos {
				want = i + l + off
			}
			vAssert(s[i] == want, "RemoveSlice (long): spliced out, everything else in place")
		}
	case 4: // Reverse, Clone, Concat
		c := Clone(s)
		Reverse(s)
		for i := range s {
			vAssert(s[i] == n-1-i+off, "Reverse (long): out[i] == in[n-1-i]")
			vAssert(c[i] == i+off, "Clone (long): an independent copy")
		}
		cc := Concat(c, s[:pos])
		vAssert(len(cc) == n+pos, "Concat (long): len is the sum")
		for i := range cc {
			want := i + off
			if i >= n {
				want = n - 1 - (i - n) + off
			}
			vAssert(cc[i] == want, "Concat (long): a then b")
		}
	case 5: // Grow, Repeat, Fill
		g := Grow(s, 70)
		vAssert(len(g) == n+70, "Grow (long): n more elements")
		for i := range g {
			want := 0
			if i < n {
				want = i + off
			}
			vAssert(g[i] == want, "Grow (long): the new elements are zero values, the old ones are kept")
		}
		r := Repeat(off, n)
		vAssert(len(r) == n, "Repeat (long): count elements")
		for i := range r {
			vAssert(r[i] == off, "Repeat (long): every element is the value")
		}
	}
	if n >= 128 {
		vCover("splice long: >= 128 elements")
	}
}
