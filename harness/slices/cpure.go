package slices

import "gopkg.in/typ.v4/maps"

// Re-entrancy of the slice helpers (C12, C13, C14): they are functions of their arguments only,
// so a call must give the same result whether or not another goroutine is inside a helper on
// other data at the same time, and there must be no data race. The expected results are
// computed first, sequentially (sequential correctness is what the other harnesses decide);
// then two goroutines repeat the calls concurrently. Scratch state kept in a package-level
// variable or a pool is what this finds. Inputs are concrete, with one symbolic offset.

func cpureInput(seed, n, off int) []int {
	s := make([]int, n)
	for i := range s {
		s[i] = (i*5+seed*3)%7 + off
	}
	return s
}

// cpureRun runs helper k of the group on an input derived from seed and flattens the result.
func cpureRun(group, k, seed, off int) []int {
	in := cpureInput(seed, 7, off)
	var out []int
	flat := func(xs ...[]int) {
		for _, x := range xs {
			out = append(out, len(x))
			out = append(out, x...)
		}
	}
	switch group {
	case 12:
		switch k {
		case 0:
			s := append(make([]int, 0, 12), in...)
			Insert(&s, 3, 99+off)
			InsertSlice(&s, 1, []int{77 + off, 78 + off})
			Remove(&s, 0)
			RemoveSlice(&s, 2, 2)
			flat(s)
		case 1:
			s := make([]int, 9)
			Fill(s, 5+off)
			flat(s, Repeat(seed+off, 5))
		case 2:
			flat(Concat(in, in[:3]), Clone(in), Grow(in[:4], 3))
		case 3:
			s := Clone(in)
			Reverse(s)
			flat(s)
		}
	case 13:
		switch k {
		case 0:
			flat(Chunk(in, 3)...)
		case 1:
			flat(Windowed(in, 3)...)
		case 2:
			for _, p := range Pairs(in) {
				out = append(out, p[0], p[1])
			}
		case 3:
			ChunkFunc(in, 2, func(c []int) { flat(c) })
			WindowedFunc(in, 5, func(c []int) { flat(c) })
			PairsFunc(in, func(a, b int) { out = append(out, a, b) })
		}
	case 14:
		switch k {
		case 0:
			flat(Distinct(in), DistinctFunc(in, func(a, b int) bool { return a == b }))
		case 1:
			flat(Except(in, in[:2]), ExceptSet(in, maps.NewSetFromSlice(in[2:4])))
		case 2:
			for _, g := range GroupBy(in, func(v int) int { return (v - off) % 3 }) {
				out = append(out, g.Key)
				flat(g.Values)
			}
			for _, c := range CountBy(in, func(v int) int { return (v - off) % 2 }) {
				out = append(out, c.Key, c.Count)
			}
		case 3:
			flat(Map(in, func(v int) int { return v * 2 }), Filter(in, func(v int) bool { return (v-off)%2 == 0 }))
			out = append(out, Fold(in, 0, func(a, v int) int { return a*3 + v }), FoldReverse(in, 0, func(a, v int) int { return a*3 + v }))
		case 4:
			flat(Trim(in, in[:1]), TrimLeft(in, in[:1]), TrimRight(in, in[6:]))
			out = append(out, Index(in, in[4]), Last(in), SafeGetOr(in, 9, -1))
		}
	}
	return out
}

func VHPureConc() {
	group := vParam("GROUP")
	nk := map[int]int{12: 4, 13: 4, 14: 5}[group]
	off := vInt("off")
	vAssume(vAnd(off >= -1000, off <= 1000))
	ka := vChoose("helperA", nk)
	kb := ka
	if vParam("MIX") == 1 {
		kb = vChoose("helperB", nk)
	}
	expA, expB := cpureRun(group, ka, 1, off), cpureRun(group, kb, 2, off)
	var gotA, gotB []int
	vGo(func() { gotA = cpureRun(group, ka, 1, off) })
	vGo(func() { gotB = cpureRun(group, kb, 2, off) })
	vAssert(vWait(), "helpers on independent data both return")
	vAssert(len(gotA) == len(expA) && len(gotB) == len(expB), "a helper gives the same result whether or not another goroutine is inside a helper (length)")
	for i := range expA {
		if i < len(gotA) {
			vAssert(gotA[i] == expA[i], "a helper gives the same result whether or not another goroutine is inside a helper")
		}
	}
	for i := range expB {
		if i < len(gotB) {
			vAssert(gotB[i] == expB[i], "a helper gives the same result whether or not another goroutine is inside a helper")
		}
	}
	vCover("pure conc done")
}
