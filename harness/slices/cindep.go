package slices

// Independent Sorted values used from different goroutines must not influence each other (C07).

func cindepSortedRun(seed, off int) []int {
	var out []int
	s := NewSortedOrdered(5+off, 1+off, 3+off)
	for i := 0; i < 12; i++ {
		out = append(out, s.Add((i*7+seed)%9+off))
	}
	out = append(out, s.Remove(3+off), s.Remove(100+off), s.Index(5+off))
	s.RemoveAt(2)
	if s.Contains(1 + off) {
		out = append(out, 1)
	}
	for i := 0; i < s.Len(); i++ {
		out = append(out, s.Get(i))
	}
	d := NewSorted([]int{2 + off, 9 + off, 4 + off}, func(a, b int) bool { return a > b })
	out = append(out, d.Add(5+off), d.Get(0), d.Len())
	return out
}

func VHSortedIndepConc() {
	off := vInt("off")
	vAssume(vAnd(off >= -1000, off <= 1000))
	expA, expB := cindepSortedRun(1, off), cindepSortedRun(2, off)
	var gotA, gotB []int
	vGo(func() { gotA = cindepSortedRun(1, off) })
	vGo(func() { gotB = cindepSortedRun(2, off) })
	vAssert(vWait(), "independent Sorted values: both goroutines finish")
	vAssert(len(gotA) == len(expA) && len(gotB) == len(expB), "independent Sorted values used concurrently behave as they do sequentially (length)")
	for i := range expA {
		if i < len(gotA) {
			vAssert(gotA[i] == expA[i], "independent Sorted values used concurrently behave as they do sequentially")
		}
	}
	for i := range expB {
		if i < len(gotB) {
			vAssert(gotB[i] == expB[i], "independent Sorted values used concurrently behave as they do sequentially")
		}
	}
	vCover("sorted indep conc done")
}
