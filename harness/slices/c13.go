package slices

// C13 — Chunk, Windowed and Pairs partition a slice exactly.

func VHChunk() {
	in, snap, _ := c13input()
	size := c13size()

	got := Chunk(in, size)

	nn := len(in)
	want := nn/size + vB2I(nn%size != 0) // ceil(n/size) without overflow for huge sizes
	vAssert(len(got) == want, "Chunk: piece count is ceil(n/size)")
	k := 0
	for pi, p := range got {
		vAssert(len(p) > 0, "Chunk: no empty piece")
		if pi < len(got)-1 {
			vAssert(len(p) == size, "Chunk: every piece but the last has length size")
		} else {
			vAssert(len(p) <= size, "Chunk: last piece not longer than size")
		}
		for _, x := range p {
			vAssert(k < nn, "Chunk: no more elements than the input")
			vAssert(x == snap[k], "Chunk: concatenation equals input")
			k++
		}
	}
	vAssert(k == nn, "Chunk: nothing lost")
	for i := range in {
		vAssert(in[i] == snap[i], "Chunk: input unchanged")
	}
	if nn%size >= 2 {
		vCover("chunk remainder >= 2")
	}
	if size > nn && nn > 0 {
		vCover("chunk size > n")
	}
	if nn%size == 0 && nn > 0 {
		vCover("chunk exact division")
	}
}

// c13size: every size >= 1 over the whole int range (sizes beyond the slice length stay
// symbolic: one path covers all of them, MaxInt included)
func c13size() int {
	size := vInt("size")
	vAssume(size >= 1)
	return size
}

func c13input() ([]int, []int, int) {
	N := vParam("N")
	n := vRange("n", 0, N)
	// spare capacity behind the slice holds values that are not part of the input
	full := make([]int, n+vChoose("spare", 3))
	for i := range full {
		full[i] = vInt("e")
	}
	in := full[:n]
	snap := append([]int(nil), in...)
	return in, snap, N
}

func VHChunkFunc() {
	in, snap, N := c13input()
	size := c13size()
	_ = N
	nn := len(in)
	want := Chunk(in, size)
	var log [][]int
	ChunkFunc(in, size, func(c []int) { log = append(log, c) })
	vAssert(len(log) == nn/size+vB2I(nn%size != 0), "ChunkFunc: number of callbacks is ceil(n/size)")
	vAssert(len(log) == len(want), "ChunkFunc: same number of pieces as Chunk")
	k := 0
	for pi, p := range log {
		vAssert(len(p) > 0, "ChunkFunc: no empty piece")
		if pi < len(want) {
			vAssert(len(p) == len(want[pi]), "ChunkFunc: piece lengths equal Chunk's")
		}
		for _, x := range p {
			vAssert(k < nn, "ChunkFunc: no more elements than the input")
			vAssert(x == snap[k], "ChunkFunc: concatenation equals input")
			k++
		}
	}
	vAssert(k == nn, "ChunkFunc: nothing lost")
	if nn%size >= 1 && nn > size {
		vCover("chunkfunc has tail")
	}
}

func VHWindowed() {
	in, snap, N := c13input()
	size := c13size()
	_ = N
	nn := len(in)
	got := Windowed(in, size)
	var log [][]int
	WindowedFunc(in, size, func(w []int) { log = append(log, w) })
	if nn < size {
		vAssert(len(got) == 0, "Windowed: no window when n < size")
		vAssert(len(log) == 0, "WindowedFunc: no callback when n < size")
		vCover("windowed n < size")
		return
	}
	vAssert(len(got) == nn-size+1, "Windowed: n-size+1 windows")
	vAssert(len(log) == len(got), "WindowedFunc: same number of windows")
	for j, w := range got {
		vAssert(len(w) == size, "Windowed: window length is size")
		for i, x := range w {
			vAssert(x == snap[j+i], "Windowed: window j is input[j:j+size]")
		}
		if j < len(log) {
			vAssert(len(log[j]) == size, "WindowedFunc: window length is size")
			for i, x := range log[j] {
				vAssert(x == snap[j+i], "WindowedFunc: window j is input[j:j+size]")
			}
		}
	}
	for i := range in {
		vAssert(in[i] == snap[i], "Windowed: input unchanged")
	}
	if nn == size {
		vCover("windowed n == size")
	}
	if len(got) >= 3 {
		vCover("windowed >= 3 windows")
	}
}

func VHPairs() {
	in, snap, _ := c13input()
	nn := len(in)
	got := Pairs(in)
	type pr struct{ a, b int }
	var log []pr
	PairsFunc(in, func(a, b int) { log = append(log, pr{a, b}) })
	want := nn - 1
	if nn < 2 {
		want = 0
	}
	vAssert(len(got) == want, "Pairs: n-1 pairs")
	vAssert(len(log) == want, "PairsFunc: n-1 callbacks")
	for j := range got {
		vAssert(got[j][0] == snap[j], "Pairs: first of pair j is input[j]")
		vAssert(got[j][1] == snap[j+1], "Pairs: second of pair j is input[j+1]")
		if j < len(log) {
			vAssert(log[j].a == snap[j], "PairsFunc: first of pair j is input[j]")
			vAssert(log[j].b == snap[j+1], "PairsFunc: second of pair j is input[j+1]")
		}
	}
	if nn >= 3 {
		vCover("pairs n >= 3")
	}
}

// VHPartitionLong: long inputs with concrete lengths and sizes (one path each), symbolic
// elements: past the first reallocation boundaries of any internal buffer.
func VHPartitionLong() {
	lens := []int{0, 1, 2, 7, 8, 9, 15, 16, 17, 31, 32, 33, 63, 64, 65, 100}
	n := lens[vChoose("len", len(lens))]
	sizes := []int{1, 2, 3, 7, 8, 9, n - 1, n, n + 1}
	size := sizes[vChoose("size", len(sizes))]
	vAssume(size >= 1)
	full := make([]int, n+2)
	for i := range full {
		full[i] = vInt("e")
	}
	in := full[:n]
	snap := append([]int(nil), in...)
	// Chunk / ChunkFunc
	got := Chunk(in, size)
	var log [][]int
	ChunkFunc(in, size, func(c []int) { log = append(log, c) })
	want := (n + size - 1) / size
	vAssert(len(got) == want, "Chunk (long): ceil(n/size) pieces")
	vAssert(len(log) == want, "ChunkFunc (long): ceil(n/size) callbacks")
	k := 0
	for pi, p := range got {
		exp := size
		if pi == want-1 {
			exp = n - size*(want-1)
		}
		vAssert(len(p) == exp, "Chunk (long): piece lengths")
		if pi < len(log) {
			vAssert(len(log[pi]) == exp, "ChunkFunc (long): piece lengths")
		}
		for j, x := range p {
			vAssert(k < n && x == snap[k], "Chunk (long): concatenation equals input")
			if pi < len(log) && j < len(log[pi]) {
				vAssert(log[pi][j] == snap[k], "ChunkFunc (long): concatenation equals input")
			}
			k++
		}
	}
	vAssert(k == n, "Chunk (long): nothing lost")
	// Windowed / WindowedFunc
	w := Windowed(in, size)
	var wlog [][]int
	WindowedFunc(in, size, func(x []int) { wlog = append(wlog, x) })
	ww := n - size + 1
	if ww < 0 {
		ww = 0
	}
	vAssert(len(w) == ww, "Windowed (long): n-size+1 windows")
	vAssert(len(wlog) == ww, "WindowedFunc (long): n-size+1 callbacks")
	for j := range w {
		vAssert(len(w[j]) == size, "Windowed (long): window length")
		vAssert(w[j][0] == snap[j] && w[j][size-1] == snap[j+size-1], "Windowed (long): window j is input[j:j+size]")
		if j < len(wlog) {
			vAssert(len(wlog[j]) == size && wlog[j][0] == snap[j] && wlog[j][size-1] == snap[j+size-1], "WindowedFunc (long): window j is input[j:j+size]")
		}
	}
	// Pairs / PairsFunc
	pr := Pairs(in)
	np := 0
	PairsFunc(in, func(a, b int) {
		if np < n-1 {
			vAssert(a == snap[np] && b == snap[np+1], "PairsFunc (long): adjacent pairs in order")
		}
		np++
	})
	wp := n - 1
	if wp < 0 {
		wp = 0
	}
	vAssert(len(pr) == wp && np == wp, "Pairs (long): n-1 pairs")
	for j := range pr {
		vAssert(pr[j][0] == snap[j] && pr[j][1] == snap[j+1], "Pairs (long): adjacent pairs in order")
	}
	for i := range full {
		if i < n {
			vAssert(full[i] == snap[i], "partition helpers (long) do not modify the input")
		}
	}
	if n >= 64 {
		vCover("partition long n >= 64")
	}
}

// VHCallbackDepth: the *Func variants must call back from a stack depth that does not grow with
// the number of pieces. Go has a bounded goroutine stack and no tail calls, so an
// implementation whose depth grows linearly fails for slices of some millions of pieces even
// though it is right on every short one; a constant or logarithmic depth is fine. 64 pieces:
// the callbacks' depths may differ by at most 16.
func VHCallbackDepth() {
	n := 64
	in := make([]int, n+1)
	for i := range in {
		in[i] = vInt("e")
	}
	lo, hi, calls := 0, 0, 0
	note := func() {
		d := vDepth()
		if calls == 0 || d < lo {
			lo = d
		}
		if calls == 0 || d > hi {
			hi = d
		}
		calls++
	}
	which := vChoose("which", 3)
	switch which {
	case 0:
		ChunkFunc(in[:n], 1, func([]int) { note() })
	case 1:
		WindowedFunc(in[:n], 1, func([]int) { note() })
	case 2:
		PairsFunc(in, func(a, b int) { note() })
	}
	vAssert(calls == n, "*Func (64 pieces): one callback per piece")
	vAssert(hi-lo <= 16, "*Func: the call depth at the callback does not grow with the number of pieces (no stack exhaustion on long slices)")
	vCover("callback depth measured")
}
