package slices

// C13 — Chunk, Windowed and Pairs partition a slice exactly.

func VHChunk() {
	N := vParam("N")
	n := vRange("n", 0, N)
	size := vRange("size", 1, N+2)
	in := make([]int, n)
	for i := range in {
		in[i] = vInt("e")
	}
	snap := append([]int(nil), in...)

	got := Chunk(in, size)

	nn := len(in)
	want := (nn + size - 1) / size
	vAssert(len(got) == want, "Chunk: piece count is ceil(n/size)")
	k := 0
	for pi, p := range got {
		vAssert(len(p) > 0, "Chunk: no empty piece")
		if pi < len(got)-1 {
			vAssert(len(p) == size, "Chunk: every piece but the last has length size")
		} else {
			vAssert(len(p) <= size, "Chunk: last piece not longer than size")
		}
		for _, x := range p {
			vAssert(k < nn, "Chunk: no more elements than the input")
			vAssert(x == snap[k], "Chunk: concatenation equals input")
			k++
		}
	}
	vAssert(k == nn, "Chunk: nothing lost")
	for i := range in {
		vAssert(in[i] == snap[i], "Chunk: input unchanged")
	}
	if nn%size >= 2 {
		vCover("chunk remainder >= 2")
	}
	if size > nn && nn > 0 {
		vCover("chunk size > n")
	}
	if nn%size == 0 && nn > 0 {
		vCover("chunk exact division")
	}
}
