package slices

// C07 over long histories: a Sorted of 40, 65, 130 or NSC (400) concrete values (10*i) goes
// through a run of removals at one place - the front, the back or the middle, by position or by
// value, 31, 32, 33, 64 or 200 of them - and then Adds at the front, the back and the middle;
// after that NOPS pseudo-random Add / Remove / RemoveAt calls. The contents are compared with a
// sorted slice kept by the harness after every call (returned positions included), so that
// anything the container defers (vacated slots, lazy compaction, windowed storage) is exercised
// past its thresholds. One symbolic value is added at the end and must land in order.
func VHSortedChurn() {
	n := []int{40, 65, 130, vParam("NSC")}[vChoose("n", 4)]
	init := make([]int, n)
	for i := range init {
		init[i] = 10 * (n - 1 - i) // handed over in descending order
	}
	s := NewSortedOrdered(init...)
	model := make([]int, n)
	for i := range model {
		model[i] = 10 * i
	}
	check := func(what string) {
		vAssert(s.Len() == len(model), what+": Len is the number of values")
		for i := range model {
			vAssert(s.Get(i) == model[i], what+": the contents are the sorted multiset")
		}
	}
	add := func(v int, what string) {
		pos := 0
		for pos < len(model) && model[pos] < v {
			pos++
		}
		model = append(model, 0)
		copy(model[pos+1:], model[pos:])
		model[pos] = v
		got := s.Add(v)
		vAssert(got >= 0 && got < len(model) && model[got] == v, what+": Add returns a position at which the value now sits")
	}
	check("long history: NewSorted")
	k := []int{31, 32, 33, 64, 200}[vChoose("k", 5)]
	if k > n-3 {
		k = n - 3
	}
	where := vChoose("where", 3)
	byValue := vChoose("byValue", 2) == 1
	for i := 0; i < k; i++ {
		at := 0
		switch where {
		case 1:
			at = len(model) - 1
		case 2:
			at = len(model) / 2
		}
		if byValue {
			vAssert(s.Remove(model[at]) == at, "long history: Remove returns the former position")
		} else {
			s.RemoveAt(at)
		}
		model = append(model[:at:at], model[at+1:]...)
		if i%8 == 7 {
			check("long history: after a run of removals")
		}
	}
	check("long history: after the removals")
	add(10*n+5, "long history: Add at the back after removals")
	check("long history: Add at the back after removals")
	add(-5, "long history: Add at the front after removals")
	add(model[len(model)/2]+1, "long history: Add in the middle after removals")
	check("long history: Adds after removals")
	x := uint32(2463534242)
	nops := vParam("NOPS")
	for i := 0; i < nops; i++ {
		x ^= x << 13
		x ^= x >> 17
		x ^= x << 5
		r := int(x >> 4)
		switch {
		case len(model) < 8 || r%3 == 0:
			add(10*(r%(2*n))+3, "long history: Add")
		case r%3 == 1:
			at := r % len(model)
			vAssert(s.Index(model[at]) <= at && s.Contains(model[at]), "long history: Index finds a present value")
			first := at
			for first > 0 && model[first-1] == model[at] {
				first--
			}
			vAssert(s.Remove(model[at]) == first, "long history: Remove returns the first position of the value")
			model = append(model[:first:first], model[first+1:]...)
		default:
			at := []int{0, len(model) - 1, r % len(model)}[r%7%3]
			s.RemoveAt(at)
			model = append(model[:at:at], model[at+1:]...)
		}
		if i%16 == 0 {
			check("long history")
		}
	}
	check("long history: at the end")
	v := vInt("v")
	mid := len(model) / 2
	vAssume(vAnd(v > model[mid-2], v < model[mid+2]))
	pos := s.Add(v)
	vAssert(pos >= 0 && pos <= len(model) && s.Get(pos) == v, "long history: a symbolic Add returns its position")
	vAssert(s.Len() == len(model)+1, "long history: a symbolic Add grows the container by one")
	if pos > 0 {
		vAssert(s.Get(pos-1) <= v, "long history: a symbolic Add lands in order")
	}
	if pos+1 < s.Len() {
		vAssert(v <= s.Get(pos+1), "long history: a symbolic Add lands in order")
	}
	vCover("sorted churn done")
}
