package slices

// C12 at scale: Insert, InsertSlice, Remove and RemoveSlice on slices whose capacity is 4096 or
// more, from nearly empty to full (so that shrink-when-sparse, grow-when-full and chunked-copy
// policies are all passed), at positions near both ends and the middle. Contents are i + off
// with one symbolic off; the expected result is spliced together by the harness from scratch.
// A second mode drains a 5000-element slice by repeated RemoveSlice from the middle down to
// nothing, checking after every step.

func c12hCheck(got, want []int, what string) {
	vAssert(len(got) == len(want), what+": resulting length")
	for i := range got {
		if i < len(want) {
			vAssert(got[i] == want[i], what+": every element in place")
		}
	}
}

func VHSpliceHuge() {
	off := vInt("off")
	vAssume(vAnd(off >= -1000000, off <= 1000000))
	if vChoose("mode", 2) == 1 {
		// drain
		s := make([]int, 0, 16)
		for i := 0; i < 5000; i++ {
			s = append(s, i+off)
		}
		model := append([]int(nil), s...)
		step := 7 + 90*vChoose("step", 2)
		for len(s) > 0 {
			l := step
			if l > len(s) {
				l = len(s)
			}
			at := (len(s) - l) / 3
			RemoveSlice(&s, at, l)
			model = append(model[:at:at], model[at+l:]...)
			vAssert(len(s) == len(model), "RemoveSlice (drain): resulting length")
			for _, i := range []int{0, at - 1, at, at + 1, len(s) - 1} {
				if i >= 0 && i < len(s) && i < len(model) {
					vAssert(s[i] == model[i], "RemoveSlice (drain): elements around the cut and at the ends in place")
				}
			}
			if len(s)%13 == 0 {
				c12hCheck(s, model, "RemoveSlice (drain)")
			}
		}
		vCover("splice huge: drained")
		return
	}
	shapes := [][2]int{{8, 4096}, {1000, 4096}, {1024, 4096}, {1025, 4096}, {4096, 4096}, {5000, 8192}, {2047, 8192}, {9000, 9000}}
	sh := shapes[vChoose("shape", len(shapes))]
	n, c := sh[0], sh[1]
	s := make([]int, n, c)
	for i := range s {
		s[i] = i + off
	}
	model := append([]int(nil), s...)
	pos := []int{0, 1, n / 2, n - 1, n}[vChoose("pos", 5)]
	switch vChoose("op", 4) {
	case 0:
		Insert(&s, pos, -7+off)
		want := append(append(append([]int(nil), model[:pos]...), -7+off), model[pos:]...)
		c12hCheck(s, want, "Insert (huge)")
	case 1:
		k := []int{0, 1, 70, 5000}[vChoose("k", 4)]
		vals := make([]int, k)
		for i := range vals {
			vals[i] = -100 - i + off
		}
		InsertSlice(&s, pos, vals)
		want := append(append(append([]int(nil), model[:pos]...), vals...), model[pos:]...)
		c12hCheck(s, want, "InsertSlice (huge)")
		for i := range vals {
			vAssert(vals[i] == -100-i+off, "InsertSlice (huge): the inserted slice itself is left alone")
		}
	case 2:
		if pos == n {
			pos = n - 1
		}
		Remove(&s, pos)
		want := append(append([]int(nil), model[:pos]...), model[pos+1:]...)
		c12hCheck(s, want, "Remove (huge)")
	case 3:
		l := []int{0, 1, 2, n / 2, n}[vChoose("l", 5)]
		if pos+l > n {
			l = n - pos
		}
		RemoveSlice(&s, pos, l)
		want := append(append([]int(nil), model[:pos]...), model[pos+l:]...)
		c12hCheck(s, want, "RemoveSlice (huge)")
	}
	// the result is an ordinary slice: one more round trip
	Insert(&s, 0, 5+off)
	vAssert(s[0] == 5+off, "after a huge operation the slice is still usable")
	Remove(&s, 0)
	vCover("splice huge done")
}
