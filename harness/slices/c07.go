package slices

import "gopkg.in/typ.v4"

// C07 — slices.Sorted is always sorted and is an exact multiset.

// The less function: ascending, descending or - when the parameter WEAK is 1, only for the claims
// that hold for every less function (sortedness, exact multiset, Get/RemoveAt by position) - an
// order that looks at part of the value only (v>>1), so that different values rank as equivalent.
func c07less() func(a, b int) bool {
	n := 2
	if vParam("WEAK") == 1 {
		n = 3
	}
	switch vChoose("order", n) {
	case 1:
		return func(a, b int) bool { return a > b }
	case 2:
		return func(a, b int) bool { return a>>1 < b>>1 }
	}
	return typ.Less[int]
}

func c07sorted(s *Sorted[int], less func(a, b int) bool, label string) {
	for j := 1; j < s.Len(); j++ {
		vAssert(!less(s.Get(j), s.Get(j-1)), label)
	}
}

func c07count(s *Sorted[int], p int) int {
	c := 0
	for j := 0; j < s.Len(); j++ {
		c += vB2I(s.Get(j) == p)
	}
	return c
}

func VHNewSorted() {
	less := c07less()
	n := vChoose("n", vParam("NN")+1)
	e := vChoose("spare", 2)
	full := make([]int, n+e)
	for i := range full {
		full[i] = vInt("in")
	}
	in := full[:n]
	snap := append([]int(nil), full...)
	var s Sorted[int]
	if vChoose("ctor", 2) == 0 {
		s = NewSorted(in, less)
	} else {
		less = typ.Less[int]
		s = NewSortedOrdered(in...)
	}
	vAssert(s.Len() == n, "NewSorted keeps every value")
	c07sorted(&s, less, "NewSorted: contents are ordered under less")
	p := vInt("probe")
	c := 0
	for j := 0; j < n; j++ {
		c += vB2I(snap[j] == p)
	}
	vAssert(c07count(&s, p) == c, "NewSorted holds exactly the multiset of the input")
	for j := range full {
		vAssert(full[j] == snap[j], "NewSorted does not reorder or overwrite its input")
	}
	// not aliased: overwriting the caller's slice afterwards does not change the Sorted
	// (observed through the public API only)
	before := make([]int, s.Len())
	for j := range before {
		before[j] = s.Get(j)
	}
	for j := range full {
		full[j] = vInt("overwrite")
	}
	for j := range before {
		vAssert(s.Get(j) == before[j], "NewSorted copies its input: later writes to the caller's slice do not reach the Sorted")
	}
	copy(full, snap)
	s.Add(vInt("v"))
	if n > 0 {
		s.RemoveAt(0)
	}
	for j := range full {
		vAssert(full[j] == snap[j], "operations on the Sorted never write the caller's slice")
	}
	if n >= 3 {
		vCover("newsorted n >= 3")
	}
}

// VHSortedHist: k operations through the public API from an empty Sorted, compared with a
// multiset model for a universally quantified probe value.
func VHSortedHist() {
	less := c07less()
	s := NewSorted([]int(nil), less)
	p := vInt("probe")
	cnt := 0
	size := 0
	k := vParam("K")
	for step := 0; step < k; step++ {
		switch vChoose("op", 3) {
		case 0:
			v := vInt("v")
			s.Add(v)
			cnt += vB2I(v == p)
			size++
		case 1:
			v := vInt("v")
			had := c07count(&s, v)
			r := s.Remove(v)
			if vParam("WEAK") == 0 {
				vAssert((r != -1) == (had != 0), "Remove succeeds exactly when the value is present")
			} else {
				vAssert(r == -1 || had != 0, "Remove removes only a value that is present")
			}
			if r != -1 {
				cnt -= vB2I(v == p)
				size--
			}
		case 2:
			if size == 0 {
				continue
			}
			i := vRange("i", 0, size-1)
			x := s.Get(i)
			s.RemoveAt(i)
			cnt -= vB2I(x == p)
			size--
		}
		vAssert(s.Len() == size, "Len equals the number of values put in and not taken out")
		c07sorted(&s, less, "contents are ordered after every operation")
		vAssert(c07count(&s, p) == cnt, "contents are exactly the multiset of values put in and not taken out")
	}
	if size >= 2 {
		vCover("history ends with >= 2 elements")
	}
}

// VHSortedLong: a long structured history past any internal capacity boundary: NL strictly
// increasing symbolic values are added (in ascending, descending or inside-out order), then
// removed again in one of several orders, with the invariant and the returned positions
// checked after every call. All comparisons are decided by the assumed order: one path per
// choice of orders.
func VHSortedLong() {
	n := vParam("NL")
	vals := make([]int, n)
	for i := range vals {
		vals[i] = vInt("s")
		if i > 0 {
			vAssume(vals[i-1] < vals[i])
		}
	}
	perm := func(kind int) []int {
		o := make([]int, 0, n)
		switch kind {
		case 0:
			for i := 0; i < n; i++ {
				o = append(o, i)
			}
		case 1:
			for i := n - 1; i >= 0; i-- {
				o = append(o, i)
			}
		case 2:
			for lo, hi := 0, n-1; lo <= hi; lo, hi = lo+1, hi-1 {
				o = append(o, lo)
				if hi != lo {
					o = append(o, hi)
				}
			}
		case 3: // stride 7 (coprime to typical sizes): a scrambled order
			for k := 0; len(o) < n; k++ {
				idx := (k * 7) % n
				dup := false
				for _, x := range o {
					if x == idx {
						dup = true
					}
				}
				if dup {
					idx = 0
					for {
						dup = false
						for _, x := range o {
							if x == idx {
								dup = true
							}
						}
						if !dup {
							break
						}
						idx++
					}
				}
				o = append(o, idx)
			}
		}
		return o
	}
	s := NewSortedOrdered[int]()
	present := make([]bool, n)
	check := func(what string) {
		k := 0
		for i := 0; i < n; i++ {
			if present[i] {
				vAssert(k < s.Len() && s.Get(k) == vals[i], what+": contents are exactly the values put in and not taken out, in order")
				k++
			}
		}
		vAssert(s.Len() == k, what+": Len is the number of values inside")
	}
	for _, i := range perm(vChoose("addorder", 4)) {
		pos := s.Add(vals[i])
		present[i] = true
		rank := 0
		for j := 0; j < i; j++ {
			if present[j] {
				rank++
			}
		}
		vAssert(pos == rank, "long history: Add returns the position at which the value now sits")
	}
	check("after the additions")
	useAt := vChoose("removeat", 2) == 1
	for step, i := range perm(vChoose("removeorder", 4)) {
		rank := 0
		for j := 0; j < i; j++ {
			if present[j] {
				rank++
			}
		}
		if useAt {
			s.RemoveAt(rank)
		} else {
			vAssert(s.Remove(vals[i]) == rank, "long history: Remove returns the former position of the value")
		}
		present[i] = false
		if step%8 == 7 || step >= n-3 {
			check("during the removals")
		}
		vAssert(!s.Contains(vals[i]), "long history: a removed value is no longer contained")
	}
	vAssert(s.Len() == 0, "long history: everything removed")
	vCover("sorted long done")
}

// VHNewSortedLong: NewSorted / NewSortedOrdered over long unsorted inputs (lengths around the
// run and merge boundaries a hand-written sort would use: 8, 16, 17, 24, 25, 32, 33, 48, 49,
// 64, 65, 96, 100), in several concrete arrangements: the result is
// sorted, holds exactly the input's multiset (duplicates included), and the input is untouched.
func VHNewSortedLong() {
	lens := []int{8, 9, 16, 17, 24, 25, 32, 33, 48, 49, 64, 65, 96, 100}
	n := lens[vChoose("len", len(lens))]
	// (concrete values: every comparison is then decided without the solver; a symbolic offset
	// would make each of the several thousand comparisons a query over an ever longer path)
	off := []int{0, -1000}[vChoose("offset", 2)]
	in := make([]int, n)
	switch vChoose("arrangement", 5) {
	case 0: // descending
		for i := range in {
			in[i] = n - i
		}
	case 1: // scrambled (stride coprime to every length used)
		for i := range in {
			in[i] = (i * 37) % 101
		}
	case 2: // few distinct keys
		for i := range in {
			in[i] = (i*7 + 3) % 5
		}
	case 3: // sorted runs of 8 in descending run order
		for i := range in {
			in[i] = (n/8-i/8)*8 + i%8
		}
	case 4: // ascending except the last element, which is the smallest
		for i := range in {
			in[i] = i + 1
		}
		in[n-1] = 0
	}
	for i := range in {
		in[i] += off
	}
	snap := append([]int(nil), in...)
	desc := vChoose("desc", 2) == 1
	var s Sorted[int]
	if desc {
		s = NewSorted(in, func(a, b int) bool { return a > b })
	} else if vChoose("ordered", 2) == 1 {
		s = NewSortedOrdered(in...)
	} else {
		s = NewSorted(in, func(a, b int) bool { return a < b })
	}
	vAssert(s.Len() == n, "NewSorted (long): every input value is in the result")
	for i := range in {
		vAssert(in[i] == snap[i], "NewSorted (long): the input slice is neither reordered nor aliased")
	}
	// sorted, and the same multiset: compare with a counting sort of the concrete keys
	cnt := map[int]int{}
	lo, hi := snap[0]-off, snap[0]-off
	for _, v := range snap {
		k := v - off
		cnt[k]++
		if k < lo {
			lo = k
		}
		if k > hi {
			hi = k
		}
	}
	var want []int
	for k := lo; k <= hi; k++ {
		for c := 0; c < cnt[k]; c++ {
			want = append(want, k+off)
		}
	}
	for i := 0; i < n && i < s.Len(); i++ {
		j := i
		if desc {
			j = n - 1 - i
		}
		vAssert(s.Get(i) == want[j], "NewSorted (long): the contents are the input's values in order")
	}
	s.Add(lo + off - 1)
	vAssert(s.Len() == n+1, "NewSorted (long): the result is usable")
	if n >= 33 {
		vCover("newsorted long n >= 33")
	}
}

// VHSortedString: String() lists the contents in order (concrete values).
func VHSortedString() {
	s := NewSortedOrdered(5, -2, 9, 5)
	s.Add(0)
	s.Remove(9)
	got := vParseInts(s.String())
	vAssert(len(got) == s.Len(), "String lists every element")
	for i := range got {
		if i < s.Len() {
			vAssert(got[i] == s.Get(i), "String lists the elements in order")
		}
	}
	var z Sorted[int]
	vAssert(len(vParseInts(z.String())) == 0, "String of an empty Sorted lists nothing")
	vCover("sorted string done")
}

// c07direct is set by the white-box file c07wb.go (when it compiles against the tree): it places a
// state directly in Sorted's representation. Without it every state is built with NewSorted.
var c07direct func(sl []int, less func(a, b int) bool) *Sorted[int]

// c07state builds an arbitrary valid Sorted: n symbolic values assumed ordered under less,
// with 0..E spare capacity in the backing slice (white-box mode only).
func c07state() (*Sorted[int], []int, func(a, b int) bool) {
	less := c07less()
	n := vChoose("n", vParam("N")+1)
	e := vChoose("spare", vParam("E")+1)
	full := make([]int, n+e)
	for i := range full {
		full[i] = vInt("s")
	}
	sl := full[:n]
	for i := 1; i < n; i++ {
		vAssume(!less(sl[i], sl[i-1]))
	}
	snap := append([]int(nil), sl...)
	if c07direct != nil && vParam("API") == 0 {
		// white-box: the state is placed directly in the representation, spare capacity included
		return c07direct(sl, less), snap, less
	}
	// black-box: through the constructor (the values are assumed ordered, so its sort decides
	// every comparison from the path condition and does not fork)
	s := NewSorted(sl, less)
	return &s, snap, less
}

func VHSortedAdd() {
	s, old, less := c07state()
	n := len(old)
	v := vInt("v")
	idx := s.Add(v)
	vAssert(s.Len() == n+1, "Add: Len grows by one")
	vAssert(vAnd(0 <= idx, idx <= n), "Add: returned position is within the new slice")
	if idx < 0 || idx > n {
		return
	}
	for j := 0; j <= n; j++ {
		exp := v
		if j < idx {
			exp = old[j]
		} else if j > idx {
			exp = old[j-1]
		}
		vAssert(s.Get(j) == exp, "Add: the new value sits at the returned position, everything else keeps its order")
	}
	c07sorted(s, less, "Add: contents stay ordered under less")
	if n >= 2 && idx == 1 {
		vCover("add in the middle")
	}
}

func VHSortedIndexRemove() {
	s, old, less := c07state()
	n := len(old)
	v := vInt("v")
	// Index / Contains
	r := s.Index(v)
	vAssert(s.Contains(v) == (r != -1), "Contains agrees with Index")
	present := false
	for j := 0; j < n; j++ {
		present = vOr(present, old[j] == v)
	}
	vAssert((r != -1) == present, "Index is -1 exactly when the value is absent")
	if r != -1 {
		vAssert(vAnd(0 <= r, r < n), "Index is a valid position")
		if r >= 0 && r < n {
			vAssert(old[r] == v, "Index points at the value")
			for j := 0; j < r; j++ {
				vAssert(old[j] != v, "Index is the first position holding the value")
			}
		}
	}
	// Remove
	got := 0
	p := vPanics(func() { got = s.Remove(v) })
	vAssert(!p, "Remove never panics (absent values included)")
	if p {
		return
	}
	if got == -1 {
		vAssert(!present, "Remove returns -1 only when the value is absent")
		vAssert(s.Len() == n, "Remove(absent) leaves Len unchanged")
		for j := 0; j < n && j < s.Len(); j++ {
			vAssert(s.Get(j) == old[j], "Remove(absent) changes nothing")
		}
		vCover("remove absent")
		return
	}
	vAssert(present, "Remove reports a position only when the value is present")
	vAssert(vAnd(0 <= got, got < n), "Remove returns a valid former position")
	if got < 0 || got >= n {
		return
	}
	vAssert(old[got] == v, "Remove returns a position that held the value")
	vAssert(s.Len() == n-1, "Remove deletes exactly one occurrence")
	for j := 0; j < n-1 && j < s.Len(); j++ {
		exp := old[j]
		if j >= got {
			exp = old[j+1]
		}
		vAssert(s.Get(j) == exp, "Remove keeps every other element in order")
	}
	c07sorted(s, less, "Remove: contents stay ordered under less")
	if n >= 2 {
		vCover("remove present, n >= 2")
	}
}

func VHSortedAt() {
	s, old, less := c07state()
	n := len(old)
	i := vInt("i")
	in := vAnd(0 <= i, i < n)
	g := 0
	p := vPanics(func() { g = s.Get(i) })
	vAssert(p == !in, "Get panics exactly for positions outside [0,Len)")
	if !p {
		for j := 0; j < n; j++ {
			vAssert(vImplies(i == j, g == old[j]), "Get returns the element at the position")
		}
	}
	p = vPanics(func() { s.RemoveAt(i) })
	vAssert(p == !in, "RemoveAt panics exactly for positions outside [0,Len)")
	if p {
		vAssert(s.Len() == n, "a panicking RemoveAt changes nothing")
		for j := 0; j < n && j < s.Len(); j++ {
			vAssert(s.Get(j) == old[j], "a panicking RemoveAt changes nothing")
		}
		return
	}
	vAssert(s.Len() == n-1, "RemoveAt removes one element")
	for j := 0; j < n-1 && j < s.Len(); j++ {
		vAssert(s.Get(j) == vIte(j < i, old[j], old[j+1]), "RemoveAt removes exactly the given position")
	}
	c07sorted(s, less, "RemoveAt: contents stay ordered under less")
	if n >= 2 {
		vCover("removeat n >= 2")
	}
}
