package slices

import "math/rand"

// C15 — sorting and searching helpers. The real sort package (pdqsort, insertion sort,
// stable/symMerge, Search) and math/rand.(*Rand).Shuffle run from source under the adapters.

type c15kv struct{ key, tag int }

func c15lessKV(a, b c15kv) bool { return a.key < b.key }

func c15ints(n int) ([]int, []int) {
	s := make([]int, n)
	for i := range s {
		s[i] = vInt("e")
	}
	return s, append([]int(nil), s...)
}

func c15perm(out, in []int, label string) {
	p := vInt("probe")
	var a, b uint8
	for i := range in {
		a += vB2U8(out[i] == p)
		b += vB2U8(in[i] == p)
	}
	vAssert(a == b, label)
}

func VHSortOrdered() {
	n := vChoose("n", vParam("N")+1)
	s, snap := c15ints(n)
	desc := vChoose("desc", 2) == 1
	if desc {
		SortDesc(s)
	} else {
		Sort(s)
	}
	for i := 1; i < n; i++ {
		if desc {
			vAssert(s[i-1] >= s[i], "SortDesc: descending order")
		} else {
			vAssert(s[i-1] <= s[i], "Sort: ascending order")
		}
	}
	c15perm(s, snap, "Sort/SortDesc: result is a permutation of the input")
	if n >= 3 {
		vCover("sort n >= 3")
	}
}

func c15kvs(n int) ([]c15kv, []c15kv) {
	s := make([]c15kv, n)
	for i := range s {
		s[i] = c15kv{vInt("k"), i}
	}
	return s, append([]c15kv(nil), s...)
}

func c15kvperm(out, in []c15kv, label string) {
	// tags are the distinct positions 0..n-1: every (key, tag) pair must reappear exactly once
	for _, x := range in {
		c := 0
		for _, y := range out {
			if y.tag == x.tag {
				c++
				vAssert(y.key == x.key, label)
			}
		}
		vAssert(c == 1, label)
	}
}

func VHSortFunc() {
	n := vChoose("n", vParam("N")+1)
	s, snap := c15kvs(n)
	variant := vChoose("variant", 4)
	switch variant {
	case 0:
		SortFunc(s, c15lessKV)
	case 1:
		SortDescFunc(s, c15lessKV)
	case 2:
		SortStableFunc(s, c15lessKV)
	case 3:
		SortStableDescFunc(s, c15lessKV)
	}
	desc := variant == 1 || variant == 3
	stable := variant >= 2
	for i := 1; i < n; i++ {
		if desc {
			vAssert(s[i-1].key >= s[i].key, "Sort*DescFunc: descending under less")
		} else {
			vAssert(s[i-1].key <= s[i].key, "Sort*Func: ascending under less")
		}
		if stable {
			vAssert(vImplies(s[i-1].key == s[i].key, s[i-1].tag < s[i].tag), "SortStable*Func keeps elements the order cannot distinguish in their original relative order")
		}
	}
	c15kvperm(s, snap, "Sort*Func: result is a permutation of the input")
	if n >= 3 && stable {
		vCover("sortfunc stable n >= 3")
	}
}

// VHSortStable13: 13 elements (the first size past pdqsort's insertion-sort cut-off), keys
// one bit each - this is what separates sort.Stable from sort.Sort.
func VHSortStable13() {
	const n = 13
	sym := vParam("SYMBITS")
	s := make([]c15kv, n)
	for i := range s {
		k := i % 2
		if i < sym {
			k = vRange("bit", 0, 1)
		}
		s[i] = c15kv{k, i}
	}
	snap := append([]c15kv(nil), s...)
	desc := vChoose("desc", 2) == 1
	if desc {
		SortStableDescFunc(s, c15lessKV)
	} else {
		SortStableFunc(s, c15lessKV)
	}
	for i := 1; i < n; i++ {
		if desc {
			vAssert(s[i-1].key >= s[i].key, "SortStableDescFunc(13): descending")
		} else {
			vAssert(s[i-1].key <= s[i].key, "SortStableFunc(13): ascending")
		}
		vAssert(vImplies(s[i-1].key == s[i].key, s[i-1].tag < s[i].tag), "SortStable*Func(13): equal keys keep their original relative order")
	}
	c15kvperm(s, snap, "SortStable*Func(13): permutation")
	vCover("stable13 done")
}

func VHBinarySearch() {
	n := vChoose("n", vParam("NB")+1)
	s, snap := c15ints(n)
	for i := 1; i < n; i++ {
		vAssume(s[i-1] <= s[i])
	}
	t := vInt("target")
	var r int
	if vChoose("func", 2) == 0 {
		r = BinarySearch(s, t)
	} else {
		r = BinarySearchFunc(s, func(a int) bool { return a < t })
	}
	vAssert(0 <= r && r <= n, "BinarySearch: result within [0,len]")
	for i := 0; i < n; i++ {
		if i < r {
			vAssert(s[i] < t, "BinarySearch: every element before the result is less than the target")
		} else {
			vAssert(s[i] >= t, "BinarySearch: every element from the result on is not less than the target")
		}
		vAssert(s[i] == snap[i], "BinarySearch does not modify the slice")
	}
	if r > 0 && r < n {
		vCover("bsearch interior result")
	}
}

// c15src is a rand.Source whose draws are symbolic inputs, recorded for replay.
type c15src struct {
	draws *[]uint64
	limit int
}

func (s c15src) Int63() int64 {
	if len(*s.draws) >= s.limit {
		vCut("rand rejection sampling: more redraws than the harness follows")
	}
	d := vUint64("draw")
	*s.draws = append(*s.draws, d)
	return int64(d >> 1)
}
func (s c15src) Seed(int64) {}

type c15replay struct {
	draws []uint64
	pos   *int
}

func (s c15replay) Int63() int64 {
	if *s.pos >= len(s.draws) {
		vAssert(false, "ShuffleRand consumed more random numbers on an identical second run")
		return 0
	}
	d := s.draws[*s.pos]
	*s.pos++
	return int64(d >> 1)
}
func (s c15replay) Seed(int64) {}

func VHShuffle() {
	n := vChoose("n", vParam("NS")+1)
	s, snap := c15ints(n)
	vSymSourceLimit = n + vParam("REDRAWS") // also bounds a ShuffleRand that wrongly draws from the global generator
	if vChoose("global", 2) == 1 {
		Shuffle(s)
		c15perm(s, snap, "Shuffle: result is a permutation of the input")
		vCover("shuffle global")
		return
	}
	var draws []uint64
	ShuffleRand(s, rand.New(c15src{&draws, n + vParam("REDRAWS")}))
	c15perm(s, snap, "ShuffleRand: result is a permutation of the input")
	if n >= 2 {
		vAssert(len(draws) >= n-1, "ShuffleRand draws its random numbers from the supplied generator")
	}
	// deterministic function of the supplied generator: same draws, same result, same consumption
	s2 := append([]int(nil), snap...)
	pos := 0
	ShuffleRand(s2, rand.New(c15replay{draws, &pos}))
	vAssert(pos == len(draws), "ShuffleRand consumes exactly the supplied generator")
	for i := range s {
		vAssert(s[i] == s2[i], "ShuffleRand is a deterministic function of the supplied generator")
	}
	if n >= 3 {
		vCover("shufflerand n >= 3")
	}
}

// Reverse is anchored in sort.go but belongs to C12; it is covered there.

// VHSortLong: lengths past the thresholds of the sort package (12: insertion sort, 50:
// ninther pivot) with concrete key patterns - comparisons are concrete, one path per choice -
// and symbolic payloads that must travel with their keys.
type c15rec struct{ key, tag, payload int }

func VHSortLong() {
	lens := []int{12, 13, 20, 33, 50, 51, 64, 100}
	n := lens[vChoose("len", len(lens))]
	mod := []int{2, 3, 10, 1000}[vChoose("keys", 4)] // few distinct keys ... all distinct
	variant := vChoose("variant", 6)
	s := make([]c15rec, n)
	ints := make([]int, n)
	for i := range s {
		k := (i*7919 + 13) % 101 % mod
		if mod == 1000 {
			k = (i * 37) % 101
		}
		s[i] = c15rec{k, i, vInt("p")}
		ints[i] = k
	}
	snap := append([]c15rec(nil), s...)
	less := func(a, b c15rec) bool { return a.key < b.key }
	desc, stable := false, false
	switch variant {
	case 0:
		SortFunc(s, less)
	case 1:
		SortDescFunc(s, less)
		desc = true
	case 2:
		SortStableFunc(s, less)
		stable = true
	case 3:
		SortStableDescFunc(s, less)
		desc, stable = true, true
	case 4:
		Sort(ints)
	case 5:
		SortDesc(ints)
		desc = true
	}
	if variant >= 4 {
		cnt := map[int]int{}
		for i := 0; i < n; i++ {
			cnt[(i*7919+13)%101%mod]++
		}
		_ = cnt
		for i := 1; i < n; i++ {
			if desc {
				vAssert(ints[i-1] >= ints[i], "SortDesc (long): descending")
			} else {
				vAssert(ints[i-1] <= ints[i], "Sort (long): ascending")
			}
		}
		return
	}
	seen := make([]bool, n)
	for i := range s {
		if i > 0 {
			if desc {
				vAssert(s[i-1].key >= s[i].key, "Sort*DescFunc (long): descending under less")
			} else {
				vAssert(s[i-1].key <= s[i].key, "Sort*Func (long): ascending under less")
			}
			if stable && s[i-1].key == s[i].key {
				vAssert(s[i-1].tag < s[i].tag, "SortStable*Func (long): equal keys keep their original relative order")
			}
		}
		t := s[i].tag
		vAssert(t >= 0 && t < n && !seen[t], "Sort*Func (long): permutation of the input")
		if t >= 0 && t < n {
			seen[t] = true
			vAssert(s[i].key == snap[t].key && s[i].payload == snap[t].payload, "Sort*Func (long): every element travels whole")
		}
	}
	if n >= 51 {
		vCover("sort long n >= 51")
	}
}

// VHSortAdversary: the comparison function is McIlroy's adversary ("A Killer Adversary for
// Quicksort", 1999): it decides the order of the elements only as the algorithm asks, always
// so as to make the pivot as bad as possible. That drives quicksort-family implementations
// into their rarely executed fallback (depth limit, heapsort, bad-pivot handling) at lengths
// where no fixed pattern does. The run is concrete apart from the payloads; the input the
// adversary settles on is then given to Sort / SortDesc as plain ints.
func VHSortAdversary() {
	// every length from 34 to 72 (even and odd remainders reach the fallback differently), then 100 and 300
	var lens []int
	for l := 34; l <= 72; l++ {
		lens = append(lens, l)
	}
	lens = append(lens, 100, 300)
	n := lens[vChoose("len", len(lens))]
	if vParam("ADVMAX") < n {
		n = vParam("ADVMAX")
	}
	variant := vChoose("variant", 4)
	gas := n
	val := make([]int, n)
	for i := range val {
		val[i] = gas
	}
	nsolid, candidate := 0, 0
	adv := func(a, b int) bool {
		if val[a] == gas && val[b] == gas {
			if a == candidate {
				val[a] = nsolid
			} else {
				val[b] = nsolid
			}
			nsolid++
		}
		if val[a] == gas {
			candidate = a
		} else if val[b] == gas {
			candidate = b
		}
		return val[a] < val[b]
	}
	type rec struct{ idx, payload int }
	s := make([]rec, n)
	for i := range s {
		s[i] = rec{i, vInt("p")}
	}
	snap := append([]rec(nil), s...)
	less := func(a, b rec) bool { return adv(a.idx, b.idx) }
	desc := false
	switch variant {
	case 0:
		SortFunc(s, less)
	case 1:
		SortDescFunc(s, less)
		desc = true
	case 2:
		SortStableFunc(s, less)
	case 3:
		SortStableDescFunc(s, less)
		desc = true
	}
	seen := make([]bool, n)
	for i := range s {
		if i > 0 {
			if desc {
				vAssert(val[s[i-1].idx] >= val[s[i].idx], "Sort*DescFunc (adversary): descending under less")
			} else {
				vAssert(val[s[i-1].idx] <= val[s[i].idx], "Sort*Func (adversary): ascending under less")
			}
		}
		t := s[i].idx
		vAssert(t >= 0 && t < n && !seen[t], "Sort*Func (adversary): permutation of the input")
		if t >= 0 && t < n {
			seen[t] = true
			vAssert(s[i].payload == snap[t].payload, "Sort*Func (adversary): every element travels whole")
		}
	}
	// the input the adversary settled on, as plain ordered values - itself and a few rearrangements
	// of it that keep its pivot-defeating head (the data that reaches a fallback is then different)
	base := append([]int(nil), val...)
	switch vChoose("rearrange", 5) {
	case 1: // the largest value goes last
		mi := 0
		for i, v := range base {
			if v > base[mi] {
				mi = i
			}
		}
		base[mi], base[n-1] = base[n-1], base[mi]
	case 2: // the smallest value goes last
		mi := 0
		for i, v := range base {
			if v < base[mi] {
				mi = i
			}
		}
		base[mi], base[n-1] = base[n-1], base[mi]
	case 3: // the last two change places
		base[n-1], base[n-2] = base[n-2], base[n-1]
	case 4: // the second half reversed
		for i, j := n/2, n-1; i < j; i, j = i+1, j-1 {
			base[i], base[j] = base[j], base[i]
		}
	}
	val = base
	ints := append([]int(nil), val...)
	ints2 := append([]int(nil), val...)
	Sort(ints)
	SortDesc(ints2)
	cnt := make([]int, n+1)
	for _, v := range val {
		cnt[v]++
	}
	for i := range ints {
		if i > 0 {
			vAssert(ints[i-1] <= ints[i], "Sort (adversarial input): ascending")
			vAssert(ints2[i-1] >= ints2[i], "SortDesc (adversarial input): descending")
		}
		if ints[i] >= 0 && ints[i] <= n {
			cnt[ints[i]]--
		}
	}
	for _, c := range cnt {
		vAssert(c == 0, "Sort (adversarial input): permutation of the input")
	}
	vCover("sort adversary done")
}

// VHHelpersConc: the helpers are functions of their arguments only, so two goroutines that
// each work on their own slice (with their own generator) must not influence each other: each
// result is what the helper gives sequentially, and there is no data race. A helper that keeps
// scratch state in a package-level variable or a pool shows up here.
func VHHelpersConc() {
	n := vParam("NH")
	var in, out [2][]int
	var kinds [2]int
	for g := 0; g < 2; g++ {
		// concrete, distinct, unsorted values: the goroutines do not interact in a correct
		// implementation, so symbolic contents would only multiply the two helpers' own paths
		in[g] = make([]int, n)
		for i := range in[g] {
			in[g][i] = 100*g + (i*7+3)%n*10 + i
		}
		out[g] = append([]int(nil), in[g]...)
		if g == 1 && vParam("MIX") == 0 {
			kinds[g] = kinds[0] // both goroutines run the same helper (scratch state lives inside one helper)
		} else {
			kinds[g] = vChoose("helper", 5)
		}
	}
	vSymSourceLimit = 2 * (n + 1)
	for g := 0; g < 2; g++ {
		g := g
		vGo(func() {
			s := out[g]
			switch kinds[g] {
			case 0:
				var draws []uint64
				ShuffleRand(s, rand.New(c15src{&draws, n + 1}))
			case 1:
				Shuffle(s)
			case 2:
				Sort(s)
			case 3:
				SortStableFunc(s, func(a, b int) bool { return a < b })
			case 4:
				Reverse(s)
			}
		})
	}
	vAssert(vWait(), "helpers on independent slices both return")
	for g := 0; g < 2; g++ {
		c15perm(out[g], in[g], "a helper working on its own slice leaves a permutation of it, whatever another goroutine does with another slice")
		switch kinds[g] {
		case 2, 3:
			for i := 1; i < n; i++ {
				vAssert(out[g][i-1] <= out[g][i], "Sort on an own slice sorts it, whatever another goroutine does")
			}
		case 4:
			for i := 0; i < n; i++ {
				vAssert(out[g][i] == in[g][n-1-i], "Reverse on an own slice reverses it, whatever another goroutine does")
			}
		}
	}
	vCover("helpers conc done")
}
