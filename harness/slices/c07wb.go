package slices

// C07, white-box part: places a pre-state directly in Sorted's representation (slice, less), which
// also lets the harness choose the spare capacity behind the slice. If the representation changes
// this file no longer compiles; the check then leaves it out (spec field "whitebox") and c07state
// builds every state through NewSorted instead.

func init() {
	c07direct = func(sl []int, less func(a, b int) bool) *Sorted[int] {
		return &Sorted[int]{slice: sl, less: less}
	}
}
