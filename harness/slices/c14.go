package slices

import (
	"errors"

	"gopkg.in/typ.v4/maps"
)

// C14 — functional slice helpers equal their reference definitions.
// Callbacks are uninterpreted functions, so each VC is decided for every callback.

func c14in(name string, maxN int) (s, snap, full []int) {
	n := vChoose(name+".n", maxN+1)
	e := vChoose(name+".spare", 2)
	full = make([]int, n+e)
	for i := range full {
		full[i] = vInt(name)
	}
	s = full[:n]
	snap = append([]int(nil), full...)
	return
}

func c14unchanged(full, snap []int, label string) {
	for i := range full {
		vAssert(full[i] == snap[i], label)
	}
}

func VHFold() {
	s, snap, full := c14in("s", vParam("N"))
	n := len(s)
	seed := vInt("seed")
	acc := func(st, v int) int { return vUF2("acc", st, v) }
	got := Fold(s, seed, acc)
	exp := seed
	for i := 0; i < n; i++ {
		exp = vUF2("acc", exp, snap[i])
	}
	vAssert(got == exp, "Fold(s,seed,acc) == acc(...acc(acc(seed,s[0]),s[1])...,s[n-1]), seed for the empty slice")
	gotR := 0
	p := vPanics(func() { gotR = FoldReverse(s, seed, acc) })
	vAssert(!p, "FoldReverse does not panic")
	expR := seed
	for i := n - 1; i >= 0; i-- {
		expR = vUF2("acc", expR, snap[i])
	}
	if !p {
		vAssert(gotR == expR, "FoldReverse applies acc from the last element down to the first, seed for the empty slice")
	}
	c14unchanged(full, snap, "Fold/FoldReverse do not modify the input")
	if n >= 2 {
		vCover("fold n >= 2")
	}
}

func VHMapFilter() {
	s, snap, full := c14in("s", vParam("N"))
	n := len(s)
	m := Map(s, func(v int) int { return vUF1("conv", v) })
	vAssert(len(m) == n, "Map: same length")
	for i := range m {
		vAssert(m[i] == vUF1("conv", snap[i]), "Map: result[i] == conv(s[i])")
	}
	vAssert(!vSameArray(m, full), "Map returns a new slice")
	// MapErr
	calls := 0
	errs := make([]error, n)
	for i := range errs {
		errs[i] = errors.New("e")
	}
	res, err := MapErr(s, func(v int) (int, error) {
		i := calls
		calls++
		if vPred1("fails", v) {
			return vUF1("junk", v), errs[i]
		}
		return vUF1("conv", v), nil
	})
	first := -1
	for i := 0; i < n; i++ {
		if vPred1("fails", snap[i]) {
			first = i
			break
		}
	}
	if first >= 0 {
		vAssert(res == nil, "MapErr returns no result on error")
		vAssert(err == errs[first], "MapErr returns the first error")
		vAssert(calls == first+1, "MapErr stops at the first error")
		vCover("maperr fails")
	} else {
		vAssert(err == nil, "MapErr: no error when none occurs")
		vAssert(len(res) == n, "MapErr: same length")
		for i := range res {
			vAssert(res[i] == vUF1("conv", snap[i]), "MapErr: result[i] == conv(s[i])")
		}
	}
	// Filter / Any / All
	f := Filter(s, func(v int) bool { return vPred1("match", v) })
	k := 0
	anyM, allM := false, true
	for i := 0; i < n; i++ {
		if vPred1("match", snap[i]) {
			vAssert(k < len(f), "Filter keeps every matching element")
			if k < len(f) {
				vAssert(f[k] == snap[i], "Filter keeps matching elements in order")
			}
			k++
			anyM = true
		} else {
			allM = false
		}
	}
	vAssert(len(f) == k, "Filter keeps only matching elements")
	vAssert(!vSameArray(f, full), "Filter returns a new slice")
	vAssert(Any(s, func(v int) bool { return vPred1("match", v) }) == anyM, "Any == OR of the predicate")
	vAssert(All(s, func(v int) bool { return vPred1("match", v) }) == allM, "All == AND of the predicate")
	for i := range f {
		f[i] = 0
	}
	for i := range m {
		m[i] = 0
	}
	c14unchanged(full, snap, "Map/MapErr/Filter/Any/All do not modify the input; writing a result leaves it unchanged")
	if k >= 1 && k < n {
		vCover("filter keeps some")
	}
}

func VHIndexContains() {
	s, snap, full := c14in("s", vParam("N"))
	n := len(s)
	v := vInt("v")
	first := -1
	for i := n - 1; i >= 0; i-- {
		first = vIte(snap[i] == v, i, first)
	}
	vAssert(Index(s, v) == first, "Index is the first position equal to the value, -1 if none")
	vAssert(Contains(s, v) == (first != -1), "Contains agrees with Index")
	firstF := -1
	for i := n - 1; i >= 0; i-- {
		firstF = vIte(vPred1("p", snap[i]), i, firstF)
	}
	vAssert(IndexFunc(s, func(x int) bool { return vPred1("p", x) }) == firstF, "IndexFunc is the first position satisfying the predicate, -1 if none")
	anyEq := false
	for i := 0; i < n; i++ {
		anyEq = vOr(anyEq, vPred2("eq", snap[i], v))
	}
	vAssert(ContainsFunc(s, v, func(a, b int) bool { return vPred2("eq", a, b) }) == anyEq, "ContainsFunc == OR of equals(element, value)")
	// TryGet / SafeGet / SafeGetOr / Last
	i := vInt("i")
	in := vAnd(0 <= i, i < n)
	el := 0
	for j := 0; j < n; j++ {
		el = vIte(i == j, snap[j], el)
	}
	g, ok := TryGet(s, i)
	vAssert(ok == in, "TryGet reports whether the index is inside the slice")
	vAssert(g == vIte(in, el, 0), "TryGet returns the element or zero")
	vAssert(SafeGet(s, i) == vIte(in, el, 0), "SafeGet returns the element or zero")
	fb := vInt("fallback")
	vAssert(SafeGetOr(s, i, fb) == vIte(in, el, fb), "SafeGetOr returns the element or the fallback")
	l := 0
	p := vPanics(func() { l = Last(s) })
	vAssert(p == (n == 0), "Last panics exactly on the empty slice")
	if n > 0 {
		vAssert(l == snap[n-1], "Last returns the last element")
	}
	c14unchanged(full, snap, "Index*/Contains*/TryGet/SafeGet*/Last do not modify the input")
	if n >= 2 {
		vCover("index n >= 2")
	}
}

func VHDistinctExcept() {
	s, snap, full := c14in("s", vParam("N"))
	n := len(s)
	d := Distinct(s)
	var exp []int
	for i := 0; i < n; i++ {
		dup := false
		for _, x := range exp {
			if x == snap[i] {
				dup = true
			}
		}
		if !dup {
			exp = append(exp, snap[i])
		}
	}
	vAssert(len(d) == len(exp), "Distinct keeps one occurrence per value")
	for i := range exp {
		if i < len(d) {
			vAssert(d[i] == exp[i], "Distinct keeps first occurrences in original order")
		}
	}
	vAssert(!vSameArray(d, full), "Distinct returns a new slice")
	if len(exp) < n && len(exp) >= 2 {
		vCover("distinct drops a duplicate, keeps >= 2")
	}
	// DistinctFunc with an arbitrary equals relation
	df := DistinctFunc(s, func(a, b int) bool { return vPred2("eq", a, b) })
	var expF []int
	for i := 0; i < n; i++ {
		dup := false
		for _, x := range expF {
			if vPred2("eq", x, snap[i]) {
				dup = true
				break
			}
		}
		if !dup {
			expF = append(expF, snap[i])
		}
	}
	vAssert(len(df) == len(expF), "DistinctFunc keeps the elements not equal to an earlier kept one")
	for i := range expF {
		if i < len(df) {
			vAssert(df[i] == expF[i], "DistinctFunc keeps first occurrences in original order")
		}
	}
	// Except / ExceptSet
	ex, exsnap, exfull := c14in("x", vParam("M"))
	r := Except(s, ex)
	r2 := ExceptSet(s, maps.NewSetFromSlice(ex))
	var expE []int
	for i := 0; i < n; i++ {
		excl := false
		for _, x := range exsnap[:len(ex)] {
			if x == snap[i] {
				excl = true
			}
		}
		if !excl {
			expE = append(expE, snap[i])
		}
	}
	vAssert(len(r) == len(expE), "Except keeps exactly the elements not in the exclusion slice")
	vAssert(len(r2) == len(expE), "ExceptSet keeps exactly the elements not in the exclusion set")
	for i := range expE {
		if i < len(r) {
			vAssert(r[i] == expE[i], "Except keeps order")
		}
		if i < len(r2) {
			vAssert(r2[i] == expE[i], "ExceptSet keeps order")
		}
	}
	vAssert(!vSameArray(r, full), "Except returns a new slice")
	for i := range d {
		d[i] = 0
	}
	for i := range r {
		r[i] = 0
	}
	c14unchanged(full, snap, "Distinct*/Except* do not modify the input")
	c14unchanged(exfull, exsnap, "Except does not modify the exclusion slice")
	if len(expE) >= 1 && len(expE) < n {
		vCover("except drops some")
	}
}

func VHGroupCount() {
	s, snap, full := c14in("s", vParam("N"))
	n := len(s)
	keyer := func(v int) int { return vUF1("key", v) }
	g := GroupBy(s, keyer)
	c := CountBy(s, keyer)
	// reference: keys in first-appearance order, members in original order
	var keys []int
	var members [][]int
	for i := 0; i < n; i++ {
		k := vUF1("key", snap[i])
		found := -1
		for j, kk := range keys {
			if kk == k {
				found = j
				break
			}
		}
		if found < 0 {
			keys = append(keys, k)
			members = append(members, []int{snap[i]})
		} else {
			members[found] = append(members[found], snap[i])
		}
	}
	vAssert(len(g) == len(keys), "GroupBy: one group per distinct key")
	vAssert(len(c) == len(keys), "CountBy: one count per distinct key")
	total, totalC := 0, 0
	for j := range keys {
		if j < len(g) {
			vAssert(g[j].Key == keys[j], "GroupBy: groups in first-appearance order of their keys")
			vAssert(len(g[j].Values) == len(members[j]), "GroupBy: group holds exactly the members with that key")
			for i := range members[j] {
				if i < len(g[j].Values) {
					vAssert(g[j].Values[i] == members[j][i], "GroupBy: members in original order")
				}
			}
			total += len(g[j].Values)
		}
		if j < len(c) {
			vAssert(c[j].Key == keys[j], "CountBy: counts in first-appearance order of their keys")
			vAssert(c[j].Count == len(members[j]), "CountBy: count is the number of members with that key")
			totalC += c[j].Count
		}
	}
	vAssert(total == n, "GroupBy: group sizes sum to n")
	vAssert(totalC == n, "CountBy: counts sum to n")
	c14unchanged(full, snap, "GroupBy/CountBy do not modify the input")
	if len(keys) >= 2 && len(keys) < n {
		vCover("groupby: >= 2 groups, one with >= 2 members")
	}
}

func VHTrim() {
	s, snap, full := c14in("s", vParam("N"))
	n := len(s)
	uw, uwsnap, _ := c14in("u", vParam("M"))
	isUnw := func(x int) bool {
		for _, u := range uwsnap[:len(uw)] {
			if u == x {
				return true
			}
		}
		return false
	}
	left := 0
	for left < n && isUnw(snap[left]) {
		left++
	}
	right := n
	for right > left && isUnw(snap[right-1]) {
		right--
	}
	check := func(res []int, lo, hi int, name string) {
		vAssert(len(res) == hi-lo, name+": length of the trimmed slice")
		if len(res) == hi-lo && hi > lo {
			vAssert(&res[0] == &s[lo], name+": result is the expected sub-slice of the argument")
		}
	}
	check(TrimLeft(s, uw), left, n, "TrimLeft")
	rightOnly := n
	for rightOnly > 0 && isUnw(snap[rightOnly-1]) {
		rightOnly--
	}
	check(TrimRight(s, uw), 0, rightOnly, "TrimRight")
	check(Trim(s, uw), left, right, "Trim")
	// Func variants with an arbitrary predicate
	pf := func(x int) bool { return vPred1("unwanted", x) }
	lf := 0
	for lf < n && vPred1("unwanted", snap[lf]) {
		lf++
	}
	rf := n
	for rf > lf && vPred1("unwanted", snap[rf-1]) {
		rf--
	}
	rfo := n
	for rfo > 0 && vPred1("unwanted", snap[rfo-1]) {
		rfo--
	}
	check(TrimLeftFunc(s, pf), lf, n, "TrimLeftFunc")
	check(TrimRightFunc(s, pf), 0, rfo, "TrimRightFunc")
	check(TrimFunc(s, pf), lf, rf, "TrimFunc")
	c14unchanged(full, snap, "Trim* do not modify the input")
	if left >= 1 && right < n && right > left {
		vCover("trim both ends, keeps a middle")
	}
}

// VHGroupCountLarge: long inputs with concrete key patterns (no forking on key equality) and
// symbolic payloads: sizes past the first reallocation boundaries of any internal buffer.
type c14kv struct{ k, tag int }

func VHGroupCountLarge() {
	n := 1 + vChoose("n", vParam("NL"))
	d := 1 + vChoose("distinct", n)
	c14group(n, d, vChoose("pattern", 2))
	if d >= 9 && n > d {
		vCover("groupby long: > 8 distinct keys with repeats")
	}
}

// VHGroupCountHuge: the same with 33..1000 elements in 1..17 groups, so that single groups grow
// far beyond any per-group reservation and the group table beyond its first sizes; a third
// pattern interleaves one dominant key with singletons.
func VHGroupCountHuge() {
	n := []int{33, 64, 65, 200, vParam("NHUGE")}[vChoose("n", 5)]
	d := []int{1, 2, 3, 5, 17}[vChoose("distinct", 5)]
	c14group(n, d, vChoose("pattern", 3))
	vCover("groupby huge done")
}

func c14group(n, d, pat int) {
	s := make([]c14kv, n)
	block := (n + d - 1) / d
	for i := range s {
		k := i % d // round-robin: every key reappears after all keys were seen
		switch pat {
		case 1:
			k = i / block // blocks
		case 2:
			k = 0 // one dominant key, the others appear once each early on
			if i%2 == 1 && i/2+1 < d {
				k = i/2 + 1
			}
		}
		s[i] = c14kv{100 + k, vInt("tag")}
	}
	snap := append([]c14kv(nil), s...)
	keyer := func(v c14kv) int { return v.k }
	g := GroupBy(s, keyer)
	c := CountBy(s, keyer)
	var keys []int
	var members [][]c14kv
	for _, v := range snap {
		found := -1
		for j, kk := range keys {
			if kk == v.k {
				found = j
			}
		}
		if found < 0 {
			keys = append(keys, v.k)
			members = append(members, []c14kv{v})
		} else {
			members[found] = append(members[found], v)
		}
	}
	vAssert(len(g) == len(keys), "GroupBy (long input): one group per distinct key")
	vAssert(len(c) == len(keys), "CountBy (long input): one count per distinct key")
	total := 0
	for j := range keys {
		if j >= len(g) || j >= len(c) {
			break
		}
		vAssert(g[j].Key == keys[j], "GroupBy (long input): groups in first-appearance order")
		vAssert(len(g[j].Values) == len(members[j]), "GroupBy (long input): every member is in its group")
		for i := range members[j] {
			if i < len(g[j].Values) {
				vAssert(g[j].Values[i] == members[j][i], "GroupBy (long input): members in original order")
			}
		}
		total += len(g[j].Values)
		vAssert(c[j].Key == keys[j], "CountBy (long input): counts in first-appearance order")
		vAssert(c[j].Count == len(members[j]), "CountBy (long input): count is the group size")
	}
	vAssert(total == n, "GroupBy (long input): group sizes sum to n")
	for i := range s {
		vAssert(s[i] == snap[i], "GroupBy/CountBy (long input) do not modify the input")
	}
}

// VHLongInputs: the order-preserving helpers on inputs longer than the forking harnesses
// reach, with concrete selection patterns and symbolic payloads.
func VHLongInputs() {
	n := vChoose("n", vParam("NL")+1)
	s := make([]int, n)
	for i := range s {
		s[i] = vInt("e")
	}
	snap := append([]int(nil), s...)
	mod := 2 + vChoose("mod", 3)
	idx := map[int]int{}
	for i, v := range snap {
		_ = v
		idx[i] = i
	}
	pos := 0
	// the stack depth at which the callbacks run must not grow with the input length (a
	// recursion per element is right on short inputs and exhausts the stack on long ones)
	dlo, dhi, dn := 0, 0, 0
	depth := func() {
		d := vDepth()
		if dn == 0 || d < dlo {
			dlo = d
		}
		if dn == 0 || d > dhi {
			dhi = d
		}
		dn++
	}
	spread := func(what string) {
		vAssert(dhi-dlo <= 8, what+": the call depth at the callback does not grow with the input length")
		dn = 0
	}
	// Filter with a position-based predicate (the callback sees elements in order)
	f := Filter(s, func(int) bool { depth(); pos++; return (pos-1)%mod == 0 })
	spread("Filter")
	k := 0
	for i := 0; i < n; i++ {
		if i%mod == 0 {
			vAssert(k < len(f) && f[k] == snap[i], "Filter (long input): matching elements in order")
			k++
		}
	}
	vAssert(len(f) == k, "Filter (long input): only matching elements")
	m := Map(s, func(v int) int { depth(); return vUF1("conv", v) })
	spread("Map")
	vAssert(len(m) == n, "Map (long input): same length")
	for i := range m {
		vAssert(m[i] == vUF1("conv", snap[i]), "Map (long input): element-wise")
	}
	acc := Fold(s, 0, func(st, v int) int { depth(); return vUF2("acc", st, v) })
	spread("Fold")
	FoldReverse(s, 0, func(st, v int) int { depth(); return st })
	spread("FoldReverse")
	All(s, func(int) bool { depth(); return true })
	spread("All")
	Any(s, func(int) bool { depth(); return false })
	spread("Any")
	IndexFunc(s, func(int) bool { depth(); return false })
	spread("IndexFunc")
	exp := 0
	for i := 0; i < n; i++ {
		exp = vUF2("acc", exp, snap[i])
	}
	vAssert(acc == exp, "Fold (long input)")
	for i := range s {
		vAssert(s[i] == snap[i], "long-input helpers do not modify the input")
	}
	if n >= 17 {
		vCover("long inputs n >= 17")
	}
}

// VHDistinctLarge: Distinct, DistinctFunc, Except, ExceptSet, Index and Contains on inputs
// longer than the forking harness reaches: concrete key patterns (every key reappears after
// all were seen; blocks; all distinct then the last few again) over up to NL elements, so
// that size- or count-dependent strategies inside the helpers are crossed.
func VHDistinctLarge() {
	n := 1 + vChoose("n", vParam("NL"))
	d := 1 + vChoose("distinct", n)
	pat := vChoose("pattern", 3)
	base := vInt("base") // symbolic offset: the values themselves stay arbitrary
	vAssume(vAnd(base >= -1000000, base <= 1000000))
	s := make([]int, n)
	block := (n + d - 1) / d
	for i := range s {
		k := i % d
		switch pat {
		case 1:
			k = i / block
		case 2: // 0..d-1 once, then d-1, d-2, ... again
			if i >= d {
				k = (d - 1 - (i-d)%d)
			}
		}
		s[i] = k
	}
	snap := append([]int(nil), s...)
	var exp []int
	for _, v := range snap {
		dup := false
		for _, x := range exp {
			if x == v {
				dup = true
			}
		}
		if !dup {
			exp = append(exp, v)
		}
	}
	// shift every value by the symbolic base
	for i := range s {
		s[i] += base
		snap[i] += base
	}
	for i := range exp {
		exp[i] += base
	}
	dd := Distinct(s)
	vAssert(len(dd) == len(exp), "Distinct (long input): one occurrence per value")
	for i := range exp {
		if i < len(dd) {
			vAssert(dd[i] == exp[i], "Distinct (long input): first occurrences in original order")
		}
	}
	df := DistinctFunc(s, func(a, b int) bool { return a == b })
	vAssert(len(df) == len(exp), "DistinctFunc (long input): one occurrence per value")
	for i := range exp {
		if i < len(df) {
			vAssert(df[i] == exp[i], "DistinctFunc (long input): first occurrences in original order")
		}
	}
	// exclude every third key
	var excl, expE []int
	for k := 0; k < d; k += 3 {
		excl = append(excl, k+base)
	}
	for _, v := range snap {
		if (v-base)%3 != 0 {
			expE = append(expE, v)
		}
	}
	r := Except(s, excl)
	r2 := ExceptSet(s, maps.NewSetFromSlice(excl))
	vAssert(len(r) == len(expE), "Except (long input): exactly the elements not excluded")
	vAssert(len(r2) == len(expE), "ExceptSet (long input): exactly the elements not excluded")
	for i := range expE {
		if i < len(r) {
			vAssert(r[i] == expE[i], "Except (long input): order kept")
		}
		if i < len(r2) {
			vAssert(r2[i] == expE[i], "ExceptSet (long input): order kept")
		}
	}
	for k := 0; k <= d; k++ {
		first := -1
		for i, v := range snap {
			if v == k+base {
				first = i
				break
			}
		}
		vAssert(Index(s, k+base) == first, "Index (long input): first position or -1")
		vAssert(Contains(s, k+base) == (first >= 0), "Contains (long input)")
	}
	for i := range s {
		vAssert(s[i] == snap[i], "Distinct*/Except* (long input) do not modify the input")
	}
	if len(exp) >= 17 && n > len(exp) {
		vCover("distinct long: > 16 distinct values with repeats")
	}
}

// VHFilterLong: Filter, Except and ExceptSet on inputs of 63..300 elements (around the 64- and
// 256-element boundaries a word- or block-wise implementation would have) with several keep
// patterns: runs that start in the middle of a block and cross its end, alternating elements,
// everything, nothing, only the last.
func VHFilterLong() {
	lens := []int{63, 64, 65, 70, 100, 127, 128, 129, 200, 256, 257, 300}
	n := lens[vChoose("len", len(lens))]
	if n > vParam("FMAX") {
		n = vParam("FMAX")
	}
	off := vInt("off")
	vAssume(vAnd(off >= -1000000, off <= 1000000))
	pat := vChoose("pattern", 7)
	keep := func(i int) bool {
		switch pat {
		case 0:
			return i >= 10
		case 1:
			return i%2 == 0
		case 2:
			return true
		case 3:
			return false
		case 4:
			return i == n-1
		case 5:
			return i >= 60 && i < 70 || i >= 120 && i < 135
		}
		return i%64 != 0 // everything but the first element of each block
	}
	s := make([]int, n)
	for i := range s {
		s[i] = i + off
	}
	var want, excl []int
	for i := 0; i < n; i++ {
		if keep(i) {
			want = append(want, i+off)
		} else {
			excl = append(excl, i+off)
		}
	}
	which := vChoose("which", 3)
	var got []int
	switch which {
	case 0:
		calls := 0
		got = Filter(s, func(v int) bool { calls++; return keep(v - off) })
		vAssert(calls == n, "Filter (long): the predicate is evaluated once per element")
	case 1:
		got = Except(s, excl)
	case 2:
		got = ExceptSet(s, maps.NewSetFromSlice(excl))
	}
	vAssert(len(got) == len(want), "Filter/Except (long): exactly the kept elements")
	for i := range want {
		if i < len(got) {
			vAssert(got[i] == want[i], "Filter/Except (long): kept elements in original order")
		}
	}
	for i := range s {
		vAssert(s[i] == i+off, "Filter/Except (long): the input is not modified")
	}
	if n >= 128 {
		vCover("filter long: >= 128 elements")
	}
}
