package main

// One persistent SMT solver process per worker (z3 -in, or cvc5 --incremental),
// driven with push/pop. Any "(error", "unknown" or timeout is reported as
// inconclusive and never as success.

import (
	"bufio"
	"fmt"
	"io"
	"os"
	"os/exec"
	"strconv"
	"strings"
	"sync"
	"time"
)

type SolverKind string

const (
	Z3    SolverKind = "z3"
	Z3New SolverKind = "z3-new"
	CVC5  SolverKind = "cvc5"
)

type Solver struct {
	kind    SolverKind
	cmd     *exec.Cmd
	in      io.WriteCloser
	out     *bufio.Reader
	timeout int // ms per query
	Queries int
	Retries int // queries repeated with a longer limit after "unknown"
	Time    time.Duration
	log     *strings.Builder // when non-nil, everything sent is logged (for cross-checking)
	dead    bool
	logAll  bool
	cross   bool
}

func StartSolver(kind SolverKind, timeoutMs int, logic string) (*Solver, error) {
	var cmd *exec.Cmd
	switch kind {
	case Z3:
		cmd = exec.Command("z3", "-in", "-smt2")
	case Z3New:
		cmd = exec.Command("z3-new", "-in", "-smt2")
	case CVC5:
		cmd = exec.Command("cvc5", "--incremental", "--produce-models", "--lang=smt2", fmt.Sprintf("--tlimit-per=%d", timeoutMs))
	}
	in, err := cmd.StdinPipe()
	if err != nil {
		return nil, err
	}
	outp, err := cmd.StdoutPipe()
	if err != nil {
		return nil, err
	}
	cmd.Stderr = nil
	if err := cmd.Start(); err != nil {
		return nil, err
	}
	s := &Solver{kind: kind, cmd: cmd, in: in, out: bufio.NewReaderSize(outp, 1<<16), timeout: timeoutMs}
	if logic == "" {
		logic = "ALL"
	}
	if kind == CVC5 {
		s.send("(set-logic " + logic + ")\n")
	} else {
		s.send(fmt.Sprintf("(set-option :timeout %d)\n", timeoutMs))
		if logic != "ALL" {
			s.send("(set-logic " + logic + ")\n")
		}
	}
	return s, nil
}

func (s *Solver) Close() {
	if s == nil || s.cmd == nil {
		return
	}
	s.in.Close()
	s.cmd.Process.Kill()
	s.cmd.Wait()
	s.cmd = nil
}

var solverLogFile *os.File

// crossLog, when non-nil, receives the complete command stream of one worker (bounded),
// so that other solvers can be run on exactly the same queries afterwards.
type crossLogT struct {
	f       *os.File
	queries int
	max     int
	mu      sync.Mutex
}

var crossLog *crossLogT

func (s *Solver) send(text string) {
	if s.log != nil {
		s.log.WriteString(text)
	}
	if solverLogFile != nil && s.logAll {
		solverLogFile.WriteString(text)
	}
	if s.cross && crossLog != nil {
		crossLog.mu.Lock()
		if crossLog.queries < crossLog.max {
			crossLog.f.WriteString(text)
			if strings.HasPrefix(text, "(check-sat") {
				crossLog.queries++
			}
		} else if crossLog.queries == crossLog.max && strings.HasPrefix(text, "(pop") {
			// close the scope of the last complete run
			crossLog.f.WriteString(text)
			crossLog.queries++
		}
		crossLog.mu.Unlock()
	}
	if _, err := io.WriteString(s.in, text); err != nil {
		s.dead = true
	}
}

func (s *Solver) Push()              { s.send("(push 1)\n") }
func (s *Solver) Pop()               { s.send("(pop 1)\n") }
func (s *Solver) Assert(text string) { s.send("(assert " + text + ")\n") }
func (s *Solver) Raw(text string)    { s.send(text) }

type SatResult int

const (
	Sat SatResult = iota
	Unsat
	Unknown
)

func (r SatResult) String() string { return [...]string{"sat", "unsat", "unknown"}[r] }

// Check runs check-sat and returns the verdict. Errors printed by the solver
// since the last check are surfaced as Unknown with the message.
func (s *Solver) Check() (SatResult, string) { return s.check("(check-sat)\n") }

// CheckAssuming decides the current assertions plus one Boolean literal, without a scope.
func (s *Solver) CheckAssuming(lit string) (SatResult, string) {
	return s.check("(check-sat-assuming (" + lit + "))\n")
}

// check sends one check command. A plain "unknown"/"timeout" (the per-query limit was hit, which
// on a loaded machine happens to queries that normally take a fraction of it) is retried once
// with six times the limit before it is reported as inconclusive.
func (s *Solver) check(cmd string) (SatResult, string) {
	res, msg := s.check1(cmd)
	if res == Unknown && (msg == "unknown" || msg == "timeout") && s.kind != CVC5 && !s.dead {
		s.send(fmt.Sprintf("(set-option :timeout %d)\n", s.timeout*6))
		res, msg = s.check1(cmd)
		s.send(fmt.Sprintf("(set-option :timeout %d)\n", s.timeout))
		s.Retries++
	}
	return res, msg
}

func (s *Solver) check1(cmd string) (SatResult, string) {
	t0 := time.Now()
	s.send(cmd)
	s.Queries++
	defer func() { s.Time += time.Since(t0) }()
	for {
		line, err := s.out.ReadString('\n')
		if err != nil {
			s.dead = true
			return Unknown, "solver died: " + err.Error()
		}
		line = strings.TrimSpace(line)
		switch {
		case line == "sat":
			return Sat, ""
		case line == "unsat":
			return Unsat, ""
		case line == "unknown" || line == "timeout":
			return Unknown, line
		case strings.HasPrefix(line, "(error"):
			// drain the verdict that follows, if any, then report inconclusive
			return Unknown, line
		case line == "":
			continue
		default:
			// unexpected output
			if strings.Contains(line, "error") {
				return Unknown, line
			}
		}
	}
}

// readSexp reads one balanced s-expression from the solver.
func (s *Solver) readSexp() (string, error) {
	var sb strings.Builder
	depth := 0
	started := false
	inBar := false
	inStr := false
	for {
		b, err := s.out.ReadByte()
		if err != nil {
			s.dead = true
			return "", err
		}
		if !started {
			if b == ' ' || b == '\n' || b == '\r' || b == '\t' {
				continue
			}
			started = true
			if b != '(' {
				// atom: read to end of line
				sb.WriteByte(b)
				rest, _ := s.out.ReadString('\n')
				sb.WriteString(strings.TrimSpace(rest))
				return sb.String(), nil
			}
		}
		sb.WriteByte(b)
		if inBar {
			if b == '|' {
				inBar = false
			}
			continue
		}
		if inStr {
			if b == '"' {
				inStr = false
			}
			continue
		}
		switch b {
		case '|':
			inBar = true
		case '"':
			inStr = true
		case '(':
			depth++
		case ')':
			depth--
			if depth == 0 {
				return sb.String(), nil
			}
		}
	}
}

// GetValues asks for the values of the given reference texts (after a Sat check)
// and returns bit patterns.
func (s *Solver) GetValues(refs []string) ([]uint64, error) {
	if len(refs) == 0 {
		return nil, nil
	}
	s.send("(get-value (" + strings.Join(refs, " ") + "))\n")
	txt, err := s.readSexp()
	if err != nil {
		return nil, err
	}
	if strings.HasPrefix(txt, "(error") {
		return nil, fmt.Errorf("%s", txt)
	}
	toks := tokenize(txt)
	// structure: ( (ref val) (ref val) ... )
	pos := 0
	expect := func(t string) error {
		if pos >= len(toks) || toks[pos] != t {
			got := "<eof>"
			if pos < len(toks) {
				got = toks[pos]
			}
			return fmt.Errorf("get-value parse: expected %q got %q in %s", t, got, txt)
		}
		pos++
		return nil
	}
	if err := expect("("); err != nil {
		return nil, err
	}
	vals := make([]uint64, 0, len(refs))
	for i := 0; i < len(refs); i++ {
		if err := expect("("); err != nil {
			return nil, err
		}
		// skip the ref expression
		if err := skipExpr(toks, &pos); err != nil {
			return nil, err
		}
		v, err := parseValue(toks, &pos)
		if err != nil {
			return nil, fmt.Errorf("%v in %s", err, txt)
		}
		vals = append(vals, v)
		if err := expect(")"); err != nil {
			return nil, err
		}
	}
	return vals, nil
}

func tokenize(s string) []string {
	var toks []string
	i := 0
	for i < len(s) {
		c := s[i]
		switch {
		case c == '(' || c == ')':
			toks = append(toks, string(c))
			i++
		case c == ' ' || c == '\n' || c == '\t' || c == '\r':
			i++
		case c == '|':
			j := i + 1
			for j < len(s) && s[j] != '|' {
				j++
			}
			toks = append(toks, s[i:j+1])
			i = j + 1
		default:
			j := i
			for j < len(s) && !strings.ContainsRune("() \n\t\r", rune(s[j])) {
				j++
			}
			toks = append(toks, s[i:j])
			i = j
		}
	}
	return toks
}

func skipExpr(toks []string, pos *int) error {
	if *pos >= len(toks) {
		return fmt.Errorf("eof")
	}
	if toks[*pos] != "(" {
		*pos++
		return nil
	}
	depth := 0
	for *pos < len(toks) {
		switch toks[*pos] {
		case "(":
			depth++
		case ")":
			depth--
		}
		*pos++
		if depth == 0 {
			return nil
		}
	}
	return fmt.Errorf("unbalanced")
}

func parseBVLit(t string) (uint64, int, bool) {
	if strings.HasPrefix(t, "#x") {
		v, err := strconv.ParseUint(t[2:], 16, 64)
		return v, 4 * (len(t) - 2), err == nil
	}
	if strings.HasPrefix(t, "#b") {
		v, err := strconv.ParseUint(t[2:], 2, 64)
		return v, len(t) - 2, err == nil
	}
	return 0, 0, false
}

// parseValue parses a model value: true/false, #x.., #b.., (_ bvN w), (fp s e m),
// (_ +zero e s), (_ -zero ..), (_ +oo ..), (_ -oo ..), (_ NaN ..).
func parseValue(toks []string, pos *int) (uint64, error) {
	if *pos >= len(toks) {
		return 0, fmt.Errorf("eof in value")
	}
	t := toks[*pos]
	if t == "true" {
		*pos++
		return 1, nil
	}
	if t == "false" {
		*pos++
		return 0, nil
	}
	if v, _, ok := parseBVLit(t); ok {
		*pos++
		return v, nil
	}
	if t != "(" {
		return 0, fmt.Errorf("unexpected value token %q", t)
	}
	start := *pos
	if err := skipExpr(toks, pos); err != nil {
		return 0, err
	}
	e := toks[start:*pos]
	// (fp s e m)
	if len(e) == 6 && e[1] == "fp" {
		sg, _, ok1 := parseBVLit(e[2])
		ex, ew, ok2 := parseBVLit(e[3])
		mn, mw, ok3 := parseBVLit(e[4])
		if ok1 && ok2 && ok3 {
			return sg<<uint(ew+mw) | ex<<uint(mw) | mn, nil
		}
	}
	if len(e) == 6 && e[1] == "_" {
		eb, _ := strconv.Atoi(e[3])
		sb, _ := strconv.Atoi(e[4])
		w := eb + sb
		switch e[2] {
		case "+zero":
			return 0, nil
		case "-zero":
			return uint64(1) << uint(w-1), nil
		case "+oo":
			return (uint64(1)<<uint(eb) - 1) << uint(sb-1), nil
		case "-oo":
			return uint64(1)<<uint(w-1) | (uint64(1)<<uint(eb)-1)<<uint(sb-1), nil
		case "NaN":
			return (uint64(1)<<uint(eb)-1)<<uint(sb-1) | uint64(1)<<uint(sb-2), nil
		}
	}
	// (_ bv123 64)
	if len(e) == 5 && e[1] == "_" && strings.HasPrefix(e[2], "bv") {
		v, err := strconv.ParseUint(e[2][2:], 10, 64)
		if err == nil {
			return v, nil
		}
	}
	return 0, fmt.Errorf("cannot parse value %v", e)
}

// crossCheck replays a logged command stream through the three solvers and compares the
// sequences of sat/unsat verdicts. Returns the number of verdicts compared and a message
// when they differ.
func crossCheck(path string, logic string) (int, []string, string) {
	src, err := os.ReadFile(path)
	if err != nil {
		return 0, nil, err.Error()
	}
	if logic == "" {
		logic = "ALL"
	}
	body := string(src)
	run := func(name string, args []string, header string) ([]string, error) {
		cmd := exec.Command(name, args...)
		cmd.Stdin = strings.NewReader(header + body)
		out, err := cmd.Output()
		var verdicts []string
		for _, l := range strings.Split(string(out), "\n") {
			l = strings.TrimSpace(l)
			if l == "sat" || l == "unsat" || l == "unknown" || strings.HasPrefix(l, "(error") {
				if strings.HasPrefix(l, "(error") {
					l = "error"
				}
				verdicts = append(verdicts, l)
			}
		}
		if len(verdicts) == 0 && err != nil {
			return nil, err
		}
		return verdicts, nil
	}
	zl := ""
	if logic != "ALL" {
		zl = "(set-logic " + logic + ")\n"
	}
	type res struct {
		name string
		v    []string
	}
	var rs []res
	for _, sv := range []struct {
		name   string
		args   []string
		header string
	}{
		{"z3", []string{"-in", "-smt2"}, "(set-option :timeout 60000)\n" + zl},
		{"z3-new", []string{"-in", "-smt2"}, "(set-option :timeout 60000)\n" + zl},
		{"cvc5", []string{"--incremental", "--produce-models", "--lang=smt2", "--tlimit-per=60000"}, "(set-logic " + logic + ")\n"},
	} {
		v, err := run(sv.name, sv.args, sv.header)
		if err != nil {
			return 0, nil, sv.name + ": " + err.Error()
		}
		rs = append(rs, res{sv.name, v})
	}
	names := []string{rs[0].name, rs[1].name, rs[2].name}
	n := len(rs[0].v)
	for _, r := range rs[1:] {
		if len(r.v) != n {
			return n, names, fmt.Sprintf("%s answered %d queries, %s answered %d", rs[0].name, n, r.name, len(r.v))
		}
		for i := range r.v {
			a, b := rs[0].v[i], r.v[i]
			if a != b && a != "unknown" && b != "unknown" {
				return n, names, fmt.Sprintf("query %d: %s says %s, %s says %s", i, rs[0].name, a, r.name, b)
			}
		}
	}
	return n, names, ""
}
