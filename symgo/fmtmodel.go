package main

// A concrete model of fmt.Sprint / Sprintf / Fprint / Fprintf / Sprintln and of strings.Builder:
// when every operand is concrete (integers, booleans, strings, slices or arrays of those, with no
// String/Error/Format method on the dynamic type) the real fmt formats reconstructed Go values and
// the result is an ordinary concrete string, so that String() methods can be checked on concrete
// contents. Anything else keeps the old behaviour: the result is the opaque token "<fmt>".

import (
	"fmt"
	"go/types"
	"strings"
)

const fmtOpaque = "<fmt>"

type builderState struct {
	sb      strings.Builder
	tainted bool
}

func (r *Run) builderOf(v Value) *builderState {
	p, ok := v.(Ptr)
	if !ok || p.s == nil {
		r.goPanic("runtime error: invalid memory address or nil pointer dereference (strings.Builder)")
	}
	if r.builders == nil {
		r.builders = map[*Slot]*builderState{}
	}
	b := r.builders[p.s]
	if b == nil {
		b = &builderState{}
		r.builders[p.s] = b
	}
	return b
}

func hasFmtMethod(t types.Type) bool {
	for _, name := range []string{"String", "Error", "Format", "GoString"} {
		for _, tt := range []types.Type{t, types.NewPointer(t)} {
			ms := types.NewMethodSet(tt)
			for i := 0; i < ms.Len(); i++ {
				if ms.At(i).Obj().Name() == name {
					return true
				}
			}
		}
	}
	return false
}

// goValue reconstructs a Go value that fmt prints exactly like the engine value of static type t.
func (r *Run) goValue(t types.Type, v Value, depth int) (interface{}, bool) {
	if depth > 4 || t == nil || hasFmtMethod(t) {
		return nil, false
	}
	switch u := under(t).(type) {
	case *types.Basic:
		switch x := v.(type) {
		case *Term:
			if !x.IsConst() {
				return nil, false
			}
			switch {
			case x.sort.K == SBool:
				return x.c != 0, true
			case x.sort.K == SFP:
				return nil, false
			case u.Kind() == types.Uint8:
				return uint8(x.c), true
			case u.Kind() == types.Int32:
				return int32(sext(x.c, 32)), true
			case isSigned(t):
				return sext(x.c, x.sort.W), true
			default:
				return x.c, true
			}
		case StrVal:
			if x.s == fmtOpaque {
				return nil, false
			}
			return x.s, true
		}
	case *types.Slice:
		sl, ok := v.(SliceVal)
		if !ok {
			return nil, false
		}
		if eb, isB := under(u.Elem()).(*types.Basic); isB && eb.Info()&types.IsInteger != 0 && eb.Kind() != types.Uint8 {
			if isSigned(u.Elem()) {
				out := make([]int64, 0, sl.len)
				for i := 0; i < sl.len; i++ {
					g, ok := r.goValue(u.Elem(), r.peek(sl.at(i)), depth+1)
					if !ok {
						return nil, false
					}
					out = append(out, g.(int64))
				}
				if sl.arr == nil {
					return []int64(nil), true
				}
				return out, true
			}
		}
		out := make([]interface{}, 0, sl.len)
		for i := 0; i < sl.len; i++ {
			g, ok := r.goValue(u.Elem(), r.peek(sl.at(i)), depth+1)
			if !ok {
				return nil, false
			}
			out = append(out, g)
		}
		return out, true
	case *types.Array:
		av, ok := v.(ArrayVal)
		if !ok {
			return nil, false
		}
		out := make([]interface{}, 0, len(av.e))
		for _, e := range av.e {
			g, ok := r.goValue(u.Elem(), e, depth+1)
			if !ok {
				return nil, false
			}
			out = append(out, g)
		}
		return out, true
	case *types.Interface:
		iv, ok := v.(Iface)
		if !ok {
			return nil, false
		}
		if iv.typ == nil {
			return nil, true
		}
		return r.goValue(iv.typ, iv.val, depth+1)
	}
	return nil, false
}

// fmtArgs reconstructs the variadic ...any operands.
func (r *Run) fmtArgs(v Value) ([]interface{}, bool) {
	sl, ok := v.(SliceVal)
	if !ok {
		return nil, false
	}
	out := make([]interface{}, 0, sl.len)
	for i := 0; i < sl.len; i++ {
		iv, ok := r.peek(sl.at(i)).(Iface)
		if !ok {
			return nil, false
		}
		if iv.typ == nil {
			out = append(out, nil)
			continue
		}
		g, ok := r.goValue(iv.typ, iv.val, 0)
		if !ok {
			return nil, false
		}
		out = append(out, g)
	}
	return out, true
}

func init() {
	reg := func(name string, f intrFn) { fmtStubs[name] = f }
	str := func(c *intrCtx, s string, ok bool) (invResult, Value) {
		if !ok {
			return invDone, StrVal{fmtOpaque}
		}
		return invDone, StrVal{s}
	}
	reg("fmt.Sprint", func(c *intrCtx) (invResult, Value) {
		a, ok := c.r.fmtArgs(c.args[0])
		return str(c, fmt.Sprint(a...), ok)
	})
	reg("fmt.Sprintln", func(c *intrCtx) (invResult, Value) {
		a, ok := c.r.fmtArgs(c.args[0])
		return str(c, fmt.Sprintln(a...), ok)
	})
	reg("fmt.Sprintf", func(c *intrCtx) (invResult, Value) {
		f, fok := c.args[0].(StrVal)
		a, ok := c.r.fmtArgs(c.args[1])
		if !fok || f.s == fmtOpaque {
			ok = false
		}
		return str(c, fmt.Sprintf(f.s, a...), ok)
	})
	fprint := func(format bool) intrFn {
		return func(c *intrCtx) (invResult, Value) {
			r := c.r
			res := Tuple{r.tt.Int(64, 0), Iface{}}
			w, isI := c.args[0].(Iface)
			if !isI || w.typ == nil || w.typ.String() != "*strings.Builder" {
				return invDone, res
			}
			b := r.builderOf(w.val)
			var s string
			var ok bool
			if format {
				f, fok := c.args[1].(StrVal)
				var a []interface{}
				a, ok = r.fmtArgs(c.args[2])
				ok = ok && fok && f.s != fmtOpaque
				if ok {
					s = fmt.Sprintf(f.s, a...)
				}
			} else {
				var a []interface{}
				a, ok = r.fmtArgs(c.args[1])
				if ok {
					s = fmt.Sprint(a...)
				}
			}
			if !ok {
				b.tainted = true
				return invDone, res
			}
			b.sb.WriteString(s)
			res[0] = r.tt.Int(64, int64(len(s)))
			return invDone, res
		}
	}
	reg("fmt.Fprint", fprint(false))
	reg("fmt.Fprintf", fprint(true))
	// ---- strings.Builder ----
	reg("(*strings.Builder).WriteByte", func(c *intrCtx) (invResult, Value) {
		b := c.r.builderOf(c.args[0])
		if t, ok := c.args[1].(*Term); ok && t.IsConst() {
			b.sb.WriteByte(byte(t.c))
		} else {
			b.tainted = true
		}
		return invDone, Iface{}
	})
	reg("(*strings.Builder).WriteRune", func(c *intrCtx) (invResult, Value) {
		b := c.r.builderOf(c.args[0])
		n := 0
		if t, ok := c.args[1].(*Term); ok && t.IsConst() {
			n, _ = b.sb.WriteRune(rune(sext(t.c, 32)))
		} else {
			b.tainted = true
		}
		return invDone, Tuple{c.r.tt.Int(64, int64(n)), Iface{}}
	})
	reg("(*strings.Builder).WriteString", func(c *intrCtx) (invResult, Value) {
		b := c.r.builderOf(c.args[0])
		n := 0
		if s, ok := c.args[1].(StrVal); ok && s.s != fmtOpaque {
			n, _ = b.sb.WriteString(s.s)
		} else {
			b.tainted = true
		}
		return invDone, Tuple{c.r.tt.Int(64, int64(n)), Iface{}}
	})
	reg("(*strings.Builder).Write", func(c *intrCtx) (invResult, Value) {
		r := c.r
		b := r.builderOf(c.args[0])
		sl, _ := c.args[1].(SliceVal)
		for i := 0; i < sl.len; i++ {
			if t, ok := r.peek(sl.at(i)).(*Term); ok && t.IsConst() {
				b.sb.WriteByte(byte(t.c))
			} else {
				b.tainted = true
			}
		}
		return invDone, Tuple{r.tt.Int(64, int64(sl.len)), Iface{}}
	})
	reg("(*strings.Builder).String", func(c *intrCtx) (invResult, Value) {
		b := c.r.builderOf(c.args[0])
		if b.tainted {
			return invDone, StrVal{fmtOpaque}
		}
		return invDone, StrVal{b.sb.String()}
	})
	reg("(*strings.Builder).Len", func(c *intrCtx) (invResult, Value) {
		b := c.r.builderOf(c.args[0])
		return invDone, c.r.tt.Int(64, int64(b.sb.Len()))
	})
	reg("(*strings.Builder).Cap", func(c *intrCtx) (invResult, Value) {
		b := c.r.builderOf(c.args[0])
		return invDone, c.r.tt.Int(64, int64(b.sb.Cap()))
	})
	reg("(*strings.Builder).Grow", func(c *intrCtx) (invResult, Value) {
		c.r.builderOf(c.args[0])
		return invDone, nil
	})
	reg("(*strings.Builder).Reset", func(c *intrCtx) (invResult, Value) {
		b := c.r.builderOf(c.args[0])
		b.sb.Reset()
		b.tainted = false
		return invDone, nil
	})
}

var fmtStubs = map[string]intrFn{}
