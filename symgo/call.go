package main

import (
	"fmt"
	"go/types"
	"strings"

	"golang.org/x/tools/go/ssa"
)

type invResult int

const (
	invDone invResult = iota
	invYield
	invPushed
)

// resolveCall evaluates the callee and arguments of a call/go/defer.
func (r *Run) resolveCall(fr *Frame, c *ssa.CallCommon) (FuncVal, []Value) {
	args := make([]Value, 0, len(c.Args)+1)
	if c.IsInvoke() {
		recv, ok := r.get(fr, c.Value).(Iface)
		if !ok {
			r.fail("invoke on non-interface value")
		}
		if recv.typ == nil {
			r.goPanic("runtime error: invalid memory address or nil pointer dereference (method call on nil interface)")
		}
		fn := r.eng.lookupMethod(recv.typ, c.Method)
		if fn == nil {
			r.fail(fmt.Sprintf("no method %s on dynamic type %s", c.Method.Name(), recv.typ))
		}
		args = append(args, recv.val)
		for _, a := range c.Args {
			args = append(args, r.get(fr, a))
		}
		return FuncVal{fn: fn}, args
	}
	for _, a := range c.Args {
		args = append(args, r.get(fr, a))
	}
	switch v := c.Value.(type) {
	case *ssa.Function:
		return FuncVal{fn: v}, args
	case *ssa.Builtin:
		return FuncVal{intr: "builtin:" + v.Name(), bound: []Value{v}}, args
	}
	fv, ok := r.get(fr, c.Value).(FuncVal)
	if !ok {
		r.fail(fmt.Sprintf("call of %T", r.get(fr, c.Value)))
	}
	if fv.IsNil() {
		r.goPanic("runtime error: invalid memory address or nil pointer dereference (call of nil func)")
	}
	return fv, args
}

func (e *Engine) lookupMethod(dyn types.Type, m *types.Func) *ssa.Function {
	ms := e.prog.MethodSets.MethodSet(dyn)
	sel := ms.Lookup(m.Pkg(), m.Name())
	if sel == nil {
		return nil
	}
	e.methMu.Lock()
	defer e.methMu.Unlock()
	return e.prog.MethodValue(sel)
}

func (r *Run) callInstr(t *Thread, fr *Frame, in *ssa.Call) bool {
	common := in.Common()
	if b, ok := common.Value.(*ssa.Builtin); ok {
		args := make([]Value, len(common.Args))
		for i, a := range common.Args {
			args[i] = r.get(fr, a)
		}
		if b.Name() == "close" {
			ch, _ := args[0].(*ChanObj)
			res, _ := r.closeChan(t, ch)
			if res == invYield {
				return false
			}
			fr.pc++
			return true
		}
		if b.Name() == "len" || b.Name() == "cap" {
			if ch, ok := args[0].(*ChanObj); ok && ch != nil && b.Name() == "len" {
				// the length of a channel is shared state: reading it is a scheduling point
				if !r.syncPoint(t, &pendOp{kind: "len(chan)"}) {
					return false
				}
			}
		}
		val := r.builtin(b.Name(), args, common.Args, in.Type())
		r.set(fr, in, val)
		fr.pc++
		return true
	}
	fv, args := r.resolveCall(fr, common)
	res, val := r.invoke(t, fv, args, in, nil)
	switch res {
	case invDone:
		r.set(fr, in, val)
		fr.pc++
		return true
	case invYield:
		return false
	}
	return true
}

type intrCtx struct {
	r     *Run
	t     *Thread
	fn    *ssa.Function
	args  []Value
	rtype types.Type // static result type (may be nil)
}

type intrFn func(c *intrCtx) (invResult, Value)

// invoke calls fv. For invPushed the result will be delivered by doReturn.
func (r *Run) invoke(t *Thread, fv FuncVal, args []Value, retTo ssa.Value, tweak func(*Frame)) (invResult, Value) {
	if fv.intr != "" {
		return r.engineClosure(t, fv, args, retTo)
	}
	fn := fv.fn
	if h := r.w.intrinsic(fn); h != nil {
		var rt types.Type
		if fn.Signature.Results().Len() == 1 {
			rt = fn.Signature.Results().At(0).Type()
		} else if fn.Signature.Results().Len() > 1 {
			rt = fn.Signature.Results()
		}
		ctx := &intrCtx{r: r, t: t, fn: fn, args: args, rtype: rt}
		res, val := h(ctx)
		if res == invPushed && tweak != nil {
			tweak(t.top())
		}
		if res == invPushed {
			t.top().retTo = retTo
		}
		return res, val
	}
	if fn.Blocks == nil {
		r.fail("no body and no stub for " + fn.String())
	}
	nf := r.pushFrame(t, fn, args, fv.env, retTo)
	if tweak != nil {
		tweak(nf)
	}
	return invPushed, nil
}

func (r *Run) engineClosure(t *Thread, fv FuncVal, args []Value, retTo ssa.Value) (invResult, Value) {
	switch {
	case fv.intr == "swapper":
		sl := fv.bound[0].(SliceVal)
		i := int(r.concretize(args[0].(*Term), "swap-i"))
		j := int(r.concretize(args[1].(*Term), "swap-j"))
		if i < 0 || j < 0 || i >= sl.len || j >= sl.len {
			r.goPanic("reflect: slice index out of range")
		}
		a, b := r.load(sl.at(i)), r.load(sl.at(j))
		r.store(sl.at(i), b)
		r.store(sl.at(j), a)
		return invDone, nil
	case strings.HasPrefix(fv.intr, "builtin:"):
		b := fv.bound[0].(*ssa.Builtin)
		// deferred/go'd builtin (e.g. defer close(ch))
		if b.Name() == "close" {
			return r.closeChan(t, args[0].(*ChanObj))
		}
		return invDone, r.builtin(b.Name(), args, nil, nil)
	case fv.intr == "nop":
		return invDone, nil
	}
	r.fail("unknown engine closure " + fv.intr)
	return invDone, nil
}

// ---- builtins ----

func (r *Run) builtin(name string, args []Value, argv []ssa.Value, rtype types.Type) Value {
	tt := r.tt
	switch name {
	case "len":
		switch x := args[0].(type) {
		case SliceVal:
			return tt.Int(64, int64(x.len))
		case StrVal:
			return tt.Int(64, int64(len(x.s)))
		case *MapObj:
			if x == nil {
				return tt.Int(64, 0)
			}
			r.mapRead(x)
			return tt.Int(64, int64(len(x.entries)))
		case *ChanObj:
			if x == nil {
				return tt.Int(64, 0)
			}
			return tt.Int(64, int64(len(x.buf)))
		case ArrayVal:
			return tt.Int(64, int64(len(x.e)))
		case Ptr:
			return tt.Int(64, int64(len(x.s.sub)))
		}
	case "cap":
		switch x := args[0].(type) {
		case SliceVal:
			return tt.Int(64, int64(x.cap))
		case *ChanObj:
			if x == nil {
				return tt.Int(64, 0)
			}
			return tt.Int(64, int64(x.cap))
		case ArrayVal:
			return tt.Int(64, int64(len(x.e)))
		}
	case "append":
		return r.appendSlice(args[0].(SliceVal), args[1], rtype)
	case "copy":
		dst := args[0].(SliceVal)
		n := dst.len
		switch src := args[1].(type) {
		case SliceVal:
			if src.len < n {
				n = src.len
			}
			tmp := make([]Value, n)
			for i := 0; i < n; i++ {
				tmp[i] = r.load(src.at(i))
			}
			for i := 0; i < n; i++ {
				r.store(dst.at(i), tmp[i])
			}
		case StrVal:
			if len(src.s) < n {
				n = len(src.s)
			}
			for i := 0; i < n; i++ {
				r.store(dst.at(i), tt.Const(BV(8), uint64(src.s[i])))
			}
		}
		return tt.Int(64, int64(n))
	case "delete":
		r.mapDelete(args[0].(*MapObj), args[1])
		return nil
	case "close":
		// non-deferred close is handled as a sync op by callInstr via closeChan
		res, _ := r.closeChan(r.cur, args[0].(*ChanObj))
		if res == invYield {
			r.fail("close yielded in builtin position")
		}
		return nil
	case "panic":
		iv, _ := args[0].(Iface)
		msg := "panic"
		if s, ok := iv.val.(StrVal); ok {
			msg = s.s
		}
		panic(goPanicSignal{iv, msg})
	case "print", "println":
		return nil
	case "ssa:wrapnilchk":
		if p, ok := args[0].(Ptr); ok && p.s == nil {
			r.goPanic("value method called using nil pointer")
		}
		return args[0]
	case "recover":
		// effective only when called directly by a deferred function while its parent panics
		t := r.cur
		if t != nil && t.panic != nil && !t.panic.recovered && len(t.frames) > 0 && t.top().isDefer {
			t.panic.recovered = true
			if iv, ok := t.panic.val.(Iface); ok {
				return iv
			}
			return Iface{typ: types.Typ[types.String], val: StrVal{t.panic.msg}}
		}
		return Iface{}
	case "Sizeof", "Alignof":
		if len(argv) == 1 {
			sz := types.SizesFor("gc", "amd64")
			if name == "Sizeof" {
				return tt.Const(BV(64), uint64(sz.Sizeof(argv[0].Type())))
			}
			return tt.Const(BV(64), uint64(sz.Alignof(argv[0].Type())))
		}
	case "min", "max":
		a, b := args[0].(*Term), args[1].(*Term)
		if a.sort.K != SBV {
			r.fail("min/max on non-integers")
		}
		op := OpUlt
		if argv != nil && isSigned(argv[0].Type()) {
			op = OpSlt
		}
		lt := tt.CmpBV(op, a, b)
		if name == "min" {
			return tt.Ite(lt, a, b)
		}
		return tt.Ite(lt, b, a)
	}
	r.fail(fmt.Sprintf("unsupported builtin %s(%T...)", name, args[0]))
	return nil
}

func (r *Run) appendSlice(s SliceVal, more Value, rtype types.Type) Value {
	var add []Value
	switch m := more.(type) {
	case SliceVal:
		for i := 0; i < m.len; i++ {
			add = append(add, r.load(m.at(i)))
		}
	case StrVal:
		for i := 0; i < len(m.s); i++ {
			add = append(add, r.tt.Const(BV(8), uint64(m.s[i])))
		}
	default:
		r.fail(fmt.Sprintf("append of %T", more))
	}
	if len(add) == 0 {
		return s
	}
	need := s.len + len(add)
	if need <= s.cap {
		for i, v := range add {
			r.store(s.at(s.len+i), v)
		}
		return SliceVal{arr: s.arr, off: s.off, len: need, cap: s.cap}
	}
	// reallocate: the real growslice picks a capacity >= need; model two extremes
	ncap := need
	dbl := 2 * s.cap
	if dbl > need {
		switch r.eng.cfg.Realloc {
		case "double":
			ncap = dbl
		case "both":
			if r.choose(2, "realloc") == 1 {
				ncap = dbl
			}
		}
	} else if r.eng.cfg.Realloc == "both" || r.eng.cfg.Realloc == "double" {
		// spare capacity beyond the exact need (size-class rounding)
		if r.eng.cfg.Realloc == "double" || r.choose(2, "realloc") == 1 {
			ncap = need + 1
		}
	}
	elem := under(rtype).(*types.Slice).Elem()
	arr := r.newArray(elem, ncap)
	for i := 0; i < s.len; i++ {
		r.store(arr.sub[i], r.load(s.at(i)))
	}
	for i, v := range add {
		r.store(arr.sub[s.len+i], v)
	}
	return SliceVal{arr: arr, off: 0, len: need, cap: ncap}
}
