package main

// Threads, scheduling decisions at synchronisation operations, channels, select,
// timers, and the happens-before race detector.

import (
	"fmt"
	"go/types"
	"os"

	"golang.org/x/tools/go/ssa"
)

var schedTrace = os.Getenv("SYMGO_SCHEDTRACE") != ""

const maxThreads = 12 // default; Config.MaxThreads raises it for the many-goroutine runs

type chanCase struct {
	ch   *ChanObj
	send bool
	val  Value
}

type pendOp struct {
	kind     string
	enabled  func() bool
	cases    []chanCase
	complete func(caseIdx int, val Value, ok bool) // finish the waiting instruction from a peer's transition
}

type delivery struct{}

type syncMeta struct{ vc []int32 }

type raceMeta struct {
	wT   int
	wC   int32
	wPos ssa.Instruction // position of the last write (formatted only when a race is reported)
	rd   []int32         // allocated on first use, one entry per possible thread
	rPos []ssa.Instruction
}

type timerEnv struct {
	ch      *ChanObj
	fired   bool
	stopped bool
	id      int
	fn      *FuncVal // time.AfterFunc: firing starts a goroutine running fn
	creator *Thread
	ticks   int // time.Ticker: how many more times it may fire (0: a one-shot timer)
}

func (r *Run) newThread(name string) *Thread {
	if len(r.threads) >= r.maxT {
		r.fail("too many threads")
	}
	t := &Thread{id: len(r.threads), vc: make([]int32, r.maxT), name: name}
	t.vc[t.id] = 1
	r.threads = append(r.threads, t)
	return t
}

func (r *Run) spawnThread(parent *Thread, fv FuncVal, args []Value) {
	t := r.newThread("go")
	r.multi = true
	copy(t.vc, parent.vc)
	t.vc[t.id] = 1
	parent.vc[parent.id]++
	if fv.intr != "" {
		r.fail("go statement on engine closure")
	}
	if h := r.w.intrinsic(fv.fn); h != nil {
		r.fail("go statement on stubbed function " + fv.fn.String())
	}
	saved := r.cur
	r.cur = t
	r.pushFrame(t, fv.fn, args, fv.env, nil)
	r.cur = saved
}

func join(a, b []int32) {
	for i := range a {
		if b[i] > a[i] {
			a[i] = b[i]
		}
	}
}

func (r *Run) acquire(t *Thread, sm *syncMeta) {
	if sm == nil || sm.vc == nil {
		return
	}
	join(t.vc, sm.vc)
}

func (r *Run) release(t *Thread, smp **syncMeta) {
	if *smp == nil {
		*smp = &syncMeta{}
	}
	sm := *smp
	if sm.vc == nil {
		sm.vc = make([]int32, r.maxT)
	}
	join(sm.vc, t.vc)
	t.vc[t.id]++
}

func (r *Run) raceRead(s *Slot) {
	if !r.multi || !s.shared || r.cur == nil {
		return
	}
	if s.race == nil {
		s.race = &raceMeta{wT: -1}
	}
	r.raceCheckAt(s.race, false, func() string { return fmt.Sprintf("obj%d (%s)", s.id, s.typ) })
}

func (r *Run) raceWrite(s *Slot) {
	if !r.multi || !s.shared || r.cur == nil {
		return
	}
	if s.race == nil {
		s.race = &raceMeta{wT: -1}
	}
	r.raceCheckAt(s.race, true, func() string { return fmt.Sprintf("obj%d (%s)", s.id, s.typ) })
}

func (r *Run) raceCheck(m *raceMeta, write bool, what string) {
	if m.wC == 0 && m.wT == 0 && m.wPos == nil {
		m.wT = -1
	}
	r.raceCheckAt(m, write, func() string { return what })
}

func (r *Run) raceCheckAt(m *raceMeta, write bool, what func() string) {
	t := r.cur
	if r.eng.cfg.NoRace {
		return
	}
	if m.wT >= 0 && m.wT != t.id && m.wC > t.vc[m.wT] {
		r.crash(ORace, "data-race", fmt.Sprintf("%s of %s by thread %d at %s races with write by thread %d at %s",
			rw(write), what(), t.id, r.where(), m.wT, r.instrPos(m.wPos)))
	}
	if m.rd == nil {
		m.rd = make([]int32, r.maxT)
		m.rPos = make([]ssa.Instruction, r.maxT)
	}
	if write {
		for u := 0; u < r.maxT; u++ {
			if u != t.id && m.rd[u] > t.vc[u] {
				r.crash(ORace, "data-race", fmt.Sprintf("write of %s by thread %d at %s races with read by thread %d at %s",
					what(), t.id, r.where(), u, r.instrPos(m.rPos[u])))
			}
		}
		m.wT = t.id
		m.wC = t.vc[t.id]
		m.wPos = r.curInstr()
		for u := range m.rd {
			m.rd[u] = 0
		}
	} else {
		m.rd[t.id] = t.vc[t.id]
		m.rPos[t.id] = r.curInstr()
	}
}

func rw(w bool) string {
	if w {
		return "write"
	}
	return "read"
}

// syncPoint is called by every synchronisation operation before it acts. It returns
// true when the operation may execute now.
func (r *Run) syncPoint(t *Thread, p *pendOp) bool {
	if t.granted {
		t.granted = false
		return true
	}
	if !r.multi && (p.enabled == nil || p.enabled()) {
		return true
	}
	t.pend = p
	t.waiting = true
	return false
}

func (r *Run) runThread(t *Thread) {
	r.cur = t
	for r.runSteps(t) {
	}
}

func (r *Run) runSteps(t *Thread) (again bool) {
	defer func() {
		if e := recover(); e != nil {
			if gp, ok := e.(goPanicSignal); ok {
				r.raisePanic(t, &panicState{val: gp.val, msg: gp.msg})
				again = true
				return
			}
			panic(e)
		}
	}()
	for r.stepNoRecover(t) {
	}
	return false
}

func (p *pendOp) isEnabled() bool { return p == nil || p.enabled == nil || p.enabled() }

// schedule runs the whole path: local steps eagerly, one decision per synchronisation operation.
func (r *Run) schedule() {
	for {
		for progressed := true; progressed; {
			progressed = false
			for i := 0; i < len(r.threads); i++ {
				t := r.threads[i]
				if !t.done && !t.waiting {
					r.runThread(t)
					progressed = true
				}
			}
		}
		main := r.threads[0]
		if main.done {
			return
		}
		var en []*Thread
		var vw *Thread
		for _, t := range r.threads {
			if t.done {
				continue
			}
			if t.pend != nil && t.pend.kind == "vwait" {
				vw = t
				continue
			}
			if t.pend.isEnabled() {
				en = append(en, t)
			}
		}
		var envs []*timerEnv
		for _, te := range r.timers {
			if !te.fired && !te.stopped {
				envs = append(envs, te)
			}
		}
		if len(en) == 0 && len(envs) == 0 {
			if vw != nil {
				vw.granted = true
				vw.waiting = false
				r.lastRun = vw
				continue
			}
			r.cur = main
			r.crash(ODeadlock, "deadlock", "all threads are blocked: "+r.describeBlocked())
		}
		// order: last running thread first, the others by id
		lastEnabled := false
		if r.lastRun != nil {
			for i, t := range en {
				if t == r.lastRun {
					copy(en[1:i+1], en[0:i])
					en[0] = t
					lastEnabled = true
					break
				}
			}
		}
		n := len(en) + len(envs)
		k := 0
		if r.eng.cfg.SchedFixed || (lastEnabled && r.eng.cfg.Preempt >= 0 && r.preemptions >= r.eng.cfg.Preempt) {
			k = 0
		} else {
			k = r.choose(n, "sched")
		}
		if k > 0 && lastEnabled {
			r.preemptions++
		}
		if k >= len(en) {
			te := envs[k-len(en)]
			te.fired = true
			if te.ticks > 0 {
				// a ticker keeps ticking (bounded: each tick is a nondeterministic environment step)
				te.ticks--
				te.fired = te.ticks == 0
			}
			switch {
			case te.fn != nil:
				r.spawnThread(te.creator, *te.fn, nil)
			case len(te.ch.buf) < te.ch.cap:
				te.ch.buf = append(te.ch.buf, r.zero(te.ch.typ.Elem()))
				te.ch.bufvc = append(te.ch.bufvc, nil)
			}
			r.sched = append(r.sched, -1-te.id)
			r.schedPartner = append(r.schedPartner, -1)
			continue
		}
		t := en[k]
		if schedTrace {
			ids := ""
			for _, x := range en {
				ids += fmt.Sprintf(" %d:%s", x.id, x.pend.kind)
			}
			fmt.Fprintf(os.Stderr, "sched: grant %d (%s) of [%s ] timers=%d\n", t.id, t.pend.kind, ids, len(envs))
		}
		r.sched = append(r.sched, t.id)
		r.schedPartner = append(r.schedPartner, -1)
		t.granted = true
		t.waiting = false
		r.lastRun = t
		r.cur = t
		// execute exactly the synchronisation operation, then fall back to the eager loop
		r.runOne(t)
	}
}

func (r *Run) runOne(t *Thread) {
	defer func() {
		if e := recover(); e != nil {
			if gp, ok := e.(goPanicSignal); ok {
				r.raisePanic(t, &panicState{val: gp.val, msg: gp.msg})
				return
			}
			panic(e)
		}
	}()
	r.stepNoRecover(t)
}

func (r *Run) describeBlocked() string {
	s := ""
	for _, t := range r.threads {
		if t.done {
			continue
		}
		k := "?"
		if t.pend != nil {
			k = t.pend.kind
		}
		pos := ""
		if len(t.frames) > 0 {
			saved := r.cur
			r.cur = t
			pos = r.where()
			r.cur = saved
		}
		s += fmt.Sprintf("[thread %d waits on %s at %s] ", t.id, k, pos)
	}
	return s
}

// ---- channels ----

func (r *Run) otherWaiting(t *Thread, ch *ChanObj, wantSend bool) (*Thread, int) {
	for _, u := range r.threads {
		if u == t || u.done || !u.waiting || u.pend == nil {
			continue
		}
		for i, c := range u.pend.cases {
			if c.ch == ch && c.send == wantSend {
				return u, i
			}
		}
	}
	return nil, -1
}

func (r *Run) canRecv(t *Thread, ch *ChanObj) bool {
	if ch == nil {
		return false
	}
	if len(ch.buf) > 0 || ch.closed {
		return true
	}
	u, _ := r.otherWaiting(t, ch, true)
	return u != nil
}

func (r *Run) canSend(t *Thread, ch *ChanObj) bool {
	if ch == nil {
		return false
	}
	if ch.closed || len(ch.buf) < ch.cap {
		return true
	}
	if len(ch.buf) > 0 {
		return false
	}
	u, _ := r.otherWaiting(t, ch, false)
	return u != nil
}

// doRecv performs an enabled receive for thread t.
func (r *Run) doRecv(t *Thread, ch *ChanObj) (Value, bool) {
	if len(ch.buf) > 0 {
		v := ch.buf[0]
		vc := ch.bufvc[0]
		ch.buf = ch.buf[1:]
		ch.bufvc = ch.bufvc[1:]
		if vc != nil {
			join(t.vc, vc)
		}
		// a blocked sender may now move its value into the buffer: it stays waiting and
		// becomes enabled through canSend.
		return v, true
	}
	if ch.closed {
		// a sender that arrives at a closed channel panics when it runs; it is never a partner
		r.acquire(t, ch.sync)
		return r.zero(ch.typ.Elem()), false
	}
	if u, ci := r.otherWaiting(t, ch, true); u != nil {
		v := u.pend.cases[ci].val
		join(t.vc, u.vc)
		join(u.vc, t.vc)
		t.vc[t.id]++
		u.vc[u.id]++
		comp := u.pend.complete
		u.waiting = false
		u.pend = nil
		if n := len(r.schedPartner); n > 0 {
			r.schedPartner[n-1] = u.id
		}
		comp(ci, nil, true)
		return v, true
	}
	r.fail("doRecv on a channel that is not ready")
	return nil, false
}

func (r *Run) doSend(t *Thread, ch *ChanObj, v Value) {
	if ch.closed {
		r.goPanic("send on closed channel")
	}
	if u, ci := r.otherWaiting(t, ch, false); u != nil && len(ch.buf) == 0 {
		join(u.vc, t.vc)
		join(t.vc, u.vc)
		t.vc[t.id]++
		u.vc[u.id]++
		comp := u.pend.complete
		u.waiting = false
		u.pend = nil
		if n := len(r.schedPartner); n > 0 {
			r.schedPartner[n-1] = u.id
		}
		comp(ci, v, true)
		return
	}
	if len(ch.buf) < ch.cap {
		ch.buf = append(ch.buf, v)
		vc := make([]int32, r.maxT)
		copy(vc, t.vc)
		ch.bufvc = append(ch.bufvc, vc)
		t.vc[t.id]++
		return
	}
	r.fail("doSend on a channel that is not ready")
}

func (r *Run) closeChan(t *Thread, ch *ChanObj) (invResult, Value) {
	if !r.syncPoint(t, &pendOp{kind: "close"}) {
		return invYield, nil
	}
	if ch == nil {
		r.goPanic("close of nil channel")
	}
	if ch.closed {
		r.goPanic("close of closed channel")
	}
	ch.closed = true
	r.release(t, &ch.sync)
	// waiting senders will panic when scheduled (canSend true on closed); waiting receivers become enabled
	return invDone, nil
}

func (r *Run) sendInstr(t *Thread, fr *Frame, in *ssa.Send) bool {
	ch, _ := r.get(fr, in.Chan).(*ChanObj)
	v := r.get(fr, in.X)
	p := &pendOp{kind: "send", cases: []chanCase{{ch: ch, send: true, val: v}}}
	p.enabled = func() bool { return r.canSend(t, ch) }
	p.complete = func(int, Value, bool) { fr.pc++ }
	if !r.syncPoint(t, p) {
		return false
	}
	if ch == nil {
		r.crash(ODeadlock, "deadlock", "send on nil channel blocks forever")
	}
	r.doSend(t, ch, v)
	fr.pc++
	return true
}

func (r *Run) recvInstr(t *Thread, fr *Frame, in *ssa.UnOp) bool {
	ch, _ := r.get(fr, in.X).(*ChanObj)
	p := &pendOp{kind: "recv", cases: []chanCase{{ch: ch, send: false}}}
	p.enabled = func() bool { return r.canRecv(t, ch) }
	setRes := func(v Value, ok bool) {
		if in.CommaOk {
			r.set(fr, in, Tuple{v, r.tt.Bool(ok)})
		} else {
			r.set(fr, in, v)
		}
		fr.pc++
	}
	p.complete = func(_ int, v Value, ok bool) { setRes(v, ok) }
	if !r.syncPoint(t, p) {
		return false
	}
	if ch == nil {
		r.crash(ODeadlock, "deadlock", "receive from nil channel blocks forever")
	}
	v, ok := r.doRecv(t, ch)
	setRes(v, ok)
	return true
}

func (r *Run) selectInstr(t *Thread, fr *Frame, in *ssa.Select) bool {
	n := len(in.States)
	cases := make([]chanCase, n)
	for i, st := range in.States {
		ch, _ := r.get(fr, st.Chan).(*ChanObj)
		cases[i] = chanCase{ch: ch, send: st.Dir == types.SendOnly}
		if cases[i].send {
			cases[i].val = r.get(fr, st.Send)
		}
	}
	ready := func() []int {
		var rd []int
		for i, c := range cases {
			if c.send && r.canSend(t, c.ch) || !c.send && r.canRecv(t, c.ch) {
				rd = append(rd, i)
			}
		}
		return rd
	}
	finish := func(idx int, v Value, ok bool) {
		tup := Tuple{r.tt.Int(64, int64(idx)), r.tt.Bool(ok)}
		for i, st := range in.States {
			if st.Dir == types.RecvOnly {
				if i == idx && v != nil {
					tup = append(tup, v)
				} else {
					tup = append(tup, r.zero(cases[i].ch.typOrElem(st)))
				}
			}
		}
		r.set(fr, in, tup)
		fr.pc++
	}
	p := &pendOp{kind: "select", cases: cases}
	if in.Blocking {
		p.enabled = func() bool { return len(ready()) > 0 }
	}
	p.complete = func(ci int, v Value, ok bool) { finish(ci, v, ok) }
	if !r.syncPoint(t, p) {
		return false
	}
	rd := ready()
	if len(rd) == 0 {
		if in.Blocking {
			r.crash(ODeadlock, "deadlock", "select with no ready case")
		}
		finish(-1, nil, false)
		return true
	}
	k := rd[r.choose(len(rd), "select")]
	c := cases[k]
	if c.send {
		r.doSend(t, c.ch, c.val)
		finish(k, nil, false)
	} else {
		v, ok := r.doRecv(t, c.ch)
		finish(k, v, ok)
	}
	return true
}

func (ch *ChanObj) typOrElem(st *ssa.SelectState) types.Type {
	return under(st.Chan.Type()).(*types.Chan).Elem()
}

func (r *Run) curInstr() ssa.Instruction {
	if r.cur == nil || len(r.cur.frames) == 0 {
		return nil
	}
	fr := r.cur.top()
	if fr.block == nil || fr.pc >= len(fr.block.Instrs) {
		return nil
	}
	return fr.block.Instrs[fr.pc]
}

func (r *Run) instrPos(in ssa.Instruction) string {
	if in == nil {
		return "?"
	}
	fn := "?"
	if in.Parent() != nil {
		fn = in.Parent().Name()
	}
	return fn + "@" + r.eng.posOf(in.Pos())
}
