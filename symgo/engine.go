package main

// Loading /repo's current working tree (+ harness overlay), building SSA, and the
// parallel path explorer.

import (
	"fmt"
	"os"
	"path/filepath"
	"sort"
	"strings"
	"sync"
	"time"

	"golang.org/x/tools/go/packages"
	"golang.org/x/tools/go/ssa"
	"golang.org/x/tools/go/ssa/ssautil"
)

type Config struct {
	Params          map[string]int64
	Unwind          int
	MaxSteps        int
	MaxDepth        int
	MaxAlloc        int
	MaxConcretize   int
	MapOrder        string // all | rot | two | one
	PoolOrder       string // "" (a Get may return any pooled item or none) | lifo
	Realloc         string // exact | double | both
	Preempt         int    // -1 unbounded
	PoolDrops       bool
	MaxThreads      int   // 0: 12
	ClockTickNs     int64 // > 0: time.Now is a concrete clock advancing by this much per reading (default: arbitrary non-decreasing)
	SchedFixed      bool  // no scheduling choices: the running thread continues, else the enabled thread with the lowest id (scale runs)
	NoRace          bool
	ConcretizeIdx   bool
	MaxPaths        int
	TimeBudgetS     int
	SolverTimeoutMs int
	Workers         int
	Solver          SolverKind
	CrossCheck      int    // solver queries of worker 0 replayed through z3-new and cvc5 after the run (0 = off)
	ValidatePaths   int    // completed single-goroutine paths re-run natively per entry (translator validation)
	Logic           string // SMT-LIB logic announced to the solver (QF_UFBV unless floats are involved)
}

func defaultConfig() Config {
	return Config{Params: map[string]int64{}, Unwind: 100000, MaxSteps: 30000000, MaxDepth: 200, MaxAlloc: 4096,
		MaxConcretize: 64, MapOrder: "two", Realloc: "double", Preempt: 2, MaxPaths: 2000000, TimeBudgetS: 600,
		SolverTimeoutMs: 10000, Workers: 16, Solver: Z3, Logic: "QF_UFBV", ValidatePaths: 24}
}

type Engine struct {
	prog      *ssa.Program
	hpkg      *ssa.Package
	initOrder []*ssa.Package
	initPkgs  map[*ssa.Package]bool
	okGlobals map[string]bool
	cfg       Config
	methMu    sync.Mutex
	repoMod   string
	loadTime  time.Duration
}

// repoDir is the tree under verification: /repo, unless the development tools point the
// engine at a scratch copy (SYMGO_REPO) to evaluate a seeded change without touching /repo.
var repoDir = func() string {
	if d := os.Getenv("SYMGO_REPO"); d != "" {
		return d
	}
	return "/repo"
}()

const repoModule = "gopkg.in/typ.v4"

// LoadEngine loads package dir pkgRel of /repo with the given overlay files injected.
func LoadEngine(pkgRel string, overlay map[string][]byte) (*Engine, error) {
	t0 := time.Now()
	os.Setenv("GOFLAGS", "-mod=mod")
	os.Setenv("GOPROXY", "off")
	os.Setenv("GOSUMDB", "off")
	os.Setenv("GOTOOLCHAIN", "local")
	cfg := &packages.Config{
		Mode:    packages.LoadAllSyntax,
		Dir:     repoDir,
		Overlay: overlay,
		Tests:   false,
		Env:     append(os.Environ(), "GOFLAGS=-mod=mod", "GOPROXY=off", "GOSUMDB=off", "GOTOOLCHAIN=local"),
	}
	pat := "./" + pkgRel
	if pkgRel == "." || pkgRel == "" {
		pat = "."
	}
	initial, err := packages.Load(cfg, pat)
	if err != nil {
		return nil, fmt.Errorf("packages.Load: %v", err)
	}
	var errs []string
	packages.Visit(initial, nil, func(p *packages.Package) {
		for _, e := range p.Errors {
			errs = append(errs, e.Error())
		}
	})
	if len(errs) > 0 {
		if len(errs) > 10 {
			errs = errs[:10]
		}
		return nil, fmt.Errorf("load errors (harness or repository does not compile):\n  %s", strings.Join(errs, "\n  "))
	}
	if len(initial) != 1 {
		return nil, fmt.Errorf("expected one package for %s, got %d", pat, len(initial))
	}
	prog, _ := ssautil.AllPackages(initial, ssa.InstantiateGenerics|ssa.BareInits)
	prog.Build()
	e := &Engine{prog: prog, initPkgs: map[*ssa.Package]bool{}, okGlobals: map[string]bool{}}
	e.hpkg = prog.Package(initial[0].Types)
	if e.hpkg == nil {
		return nil, fmt.Errorf("no SSA package for %s", initial[0].PkgPath)
	}
	// init order: repo packages in dependency order
	seen := map[*packages.Package]bool{}
	var visit func(p *packages.Package)
	visit = func(p *packages.Package) {
		if seen[p] {
			return
		}
		seen[p] = true
		var keys []string
		for k := range p.Imports {
			keys = append(keys, k)
		}
		sort.Strings(keys)
		for _, k := range keys {
			visit(p.Imports[k])
		}
		if strings.HasPrefix(p.PkgPath, repoModule) || initPackagesExtra[p.PkgPath] {
			if sp := prog.Package(p.Types); sp != nil {
				e.initOrder = append(e.initOrder, sp)
				e.initPkgs[sp] = true
			}
		}
	}
	visit(initial[0])
	e.loadTime = time.Since(t0)
	return e, nil
}

// standard-library packages whose (bare) package initialisers are safe and needed
// Their init functions are run "tolerantly": an instruction the engine cannot execute (a
// runtime hook without a body, reflectlite, ...) is skipped with a zero result instead of ending
// the path, so that the plain package-level variables (context.Canceled, sync.expunged, io.EOF,
// ...) exist when library code reached from the repository uses them.
var initPackagesExtra = map[string]bool{
	"errors":       true,
	"io":           true,
	"sync":         true,
	"context":      true,
	"math/bits":    true,
	"unicode/utf8": true,
}

type Worker struct {
	id             int
	eng            *Engine
	tt             *TermTable
	pr             *Printer
	sol            *Solver
	fninfo         map[*ssa.Function]*fnInfo
	intrCache      map[*ssa.Function]intrFn
	runs           int
	wantValidation func(r *Run) bool
}

func NewWorker(e *Engine, id int) (*Worker, error) {
	tt := NewTermTable()
	w := &Worker{id: id, eng: e, tt: tt, pr: NewPrinter(tt), fninfo: map[*ssa.Function]*fnInfo{}, intrCache: map[*ssa.Function]intrFn{}}
	s, err := StartSolver(e.cfg.Solver, e.cfg.SolverTimeoutMs, e.cfg.Logic)
	if err != nil {
		return nil, err
	}
	w.sol = s
	if id == 0 && crossLog != nil {
		s.cross = true
	}
	if id == 0 && os.Getenv("SYMGO_LOG") != "" {
		solverLogFile, _ = os.Create(os.Getenv("SYMGO_LOG"))
		s.logAll = true
	}
	return w, nil
}

func (w *Worker) restartSolver() {
	q, tm := w.sol.Queries, w.sol.Time
	w.sol.Close()
	s, err := StartSolver(w.eng.cfg.Solver, w.eng.cfg.SolverTimeoutMs, w.eng.cfg.Logic)
	if err != nil {
		panic(err)
	}
	s.Queries, s.Time = q, tm
	s.cross = w.id == 0 && crossLog != nil
	w.sol = s
}

// RunPath executes one path of entry under the decision prefix.
func (w *Worker) RunPath(entry *ssa.Function, prefix []Dec) (r *Run) {
	w.runs++
	if w.runs%400 == 0 || w.sol.dead {
		w.restartSolver()
	}
	r = &Run{maxT: maxThreads, w: w, eng: w.eng, tt: w.tt, prefix: prefix, atoms: map[int]bool{}, inputOcc: map[string]int{},
		chooses: map[string]int64{}, covers: map[string]bool{}, globals: map[*ssa.Global]*Slot{},
		pools: map[*Slot]*poolModel{}, cuts: map[string]bool{}, mutexes: map[*Slot]*mutexState{},
		timerBySlot: map[*Slot]*timerEnv{}, ordS: newOrdGraph(true), ordU: newOrdGraph(false)}
	if w.eng.cfg.MaxThreads > 0 {
		r.maxT = w.eng.cfg.MaxThreads
	}
	w.pr.Reset()
	w.sol.Push()
	defer func() {
		if e := recover(); e != nil {
			if _, ok := e.(abortRun); !ok {
				if gp, ok := e.(goPanicSignal); ok {
					r.outcome = OEngineError
					r.errMsg = "go panic outside thread context: " + gp.msg
				} else {
					r.outcome = OEngineError
					r.errMsg = fmt.Sprintf("engine panic: %v\n%s", e, stackTrace())
				}
			}
		}
		w.sol.Pop()
	}()
	main := r.newThread("main")
	r.cur = main
	for _, p := range w.eng.initOrder {
		if f := p.Func("init"); f != nil && f.Blocks != nil {
			r.pushFrame(main, f, nil, nil, nil)
			if initPackagesExtra[p.Pkg.Path()] {
				r.runTolerantInit(main)
				main.done = false
				continue
			}
			r.runThread(main)
			if len(main.frames) != 0 {
				r.abort(OEngineError, "package init of "+p.Pkg.Path()+" did not run to completion")
			}
			main.done = false
		}
	}
	r.pushFrame(main, entry, nil, nil, nil)
	r.schedule()
	r.outcome = ODone
	if w.wantValidation != nil && len(r.threads) == 1 && len(r.timers) == 0 && w.wantValidation(r) {
		// solve the path condition for concrete inputs: the native run on them must pass too
		r.witness = r.modelForPath(ODone, "", "")
		r.witness.Observed = r.evalObserved(r.witness)
	}
	return r
}

// runTolerantInit runs the init function on top of t's stack to completion; whenever an
// instruction (in it or in anything it calls) cannot be executed, the stack is cut back to the
// init frame and that instruction of the init function is skipped, its result being the zero value.
func (r *Run) runTolerantInit(t *Thread) {
	base := len(t.frames)
	for guard := 0; guard < 10000 && len(t.frames) >= base; guard++ {
		func() {
			defer func() {
				if e := recover(); e != nil {
					_, isAbort := e.(abortRun)
					_, isPanic := e.(goPanicSignal)
					if !(isAbort && r.outcome == OEngineError) && !isPanic {
						panic(e)
					}
					r.outcome, r.errMsg = ODone, ""
					t.panic = nil
					t.frames = t.frames[:base]
					fr := t.top()
					if fr.pc < len(fr.block.Instrs) {
						if v, ok := fr.block.Instrs[fr.pc].(ssa.Value); ok {
							func() {
								defer func() { recover() }()
								r.set(fr, v, r.zero(v.Type()))
							}()
						}
						fr.pc++
					}
				}
			}()
			for len(t.frames) >= base && r.stepNoRecover(t) {
			}
		}()
		if t.done || len(t.frames) < base {
			break
		}
	}
	t.frames = t.frames[:base-1]
}

// ---- explorer ----

type PathStat struct {
	Outcome Outcome
	Decs    int
	Steps   int
}

type Explorer struct {
	eng      *Engine
	entry    *ssa.Function
	mu       sync.Mutex
	cond     *sync.Cond
	jobs     [][]Dec
	active   int
	stop     bool
	stopWhy  string
	outcomes map[Outcome]int
	paths    int
	decs     int64
	steps    int64
	covers   map[string]int
	cuts     map[string]int
	findings map[string]*Finding // key: outcome|label
	fcount   map[string]int
	errs     []string
	samples  []map[string]interface{}
	qFeas    int64
	qOrder   int64
	qVC      int64
	vcRew    int64
	vcSol    int64
	vcInh    int64
	fnSteps  map[string]int64
	solverT  time.Duration
	solverQ  int
	start    time.Time
	maxDecs  int
	valid    []*Finding // sampled passing paths for translator validation
	vmu      sync.Mutex
	vtaken   int
	seed     int64
}

func (ex *Explorer) worker(w *Worker, wg *sync.WaitGroup) {
	defer wg.Done()
	for {
		ex.mu.Lock()
		for len(ex.jobs) == 0 && ex.active > 0 && !ex.stop {
			ex.cond.Wait()
		}
		if ex.stop || (len(ex.jobs) == 0 && ex.active == 0) {
			ex.mu.Unlock()
			ex.cond.Broadcast()
			return
		}
		job := ex.jobs[len(ex.jobs)-1]
		ex.jobs = ex.jobs[:len(ex.jobs)-1]
		ex.active++
		ex.mu.Unlock()

		r := w.RunPath(ex.entry, job)

		ex.mu.Lock()
		ex.active--
		ex.record(r)
		ex.jobs = append(ex.jobs, r.spawn...)
		if ex.paths >= ex.eng.cfg.MaxPaths {
			ex.stop, ex.stopWhy = true, fmt.Sprintf("path budget %d reached", ex.eng.cfg.MaxPaths)
		}
		if time.Since(ex.start) > time.Duration(ex.eng.cfg.TimeBudgetS)*time.Second {
			ex.stop, ex.stopWhy = true, fmt.Sprintf("time budget %ds reached", ex.eng.cfg.TimeBudgetS)
		}
		ex.mu.Unlock()
		ex.cond.Broadcast()
	}
}

func (ex *Explorer) record(r *Run) {
	ex.paths++
	ex.outcomes[r.outcome]++
	ex.decs += int64(len(r.log))
	ex.steps += int64(r.steps)
	if len(r.log) > ex.maxDecs {
		ex.maxDecs = len(r.log)
	}
	ex.qFeas += int64(r.qFeas)
	ex.qOrder += int64(r.qOrder)
	ex.qVC += int64(r.qVC)
	ex.vcRew += int64(r.vcRewrite)
	ex.vcSol += int64(r.vcSolver)
	ex.vcInh += int64(r.vcInherited)
	for c := range r.covers {
		ex.covers[c]++
	}
	for c := range r.cuts {
		ex.cuts[c]++
	}
	switch r.outcome {
	case OViolation, OCrash, ORace, ODeadlock, OUnwind:
		f := r.finding
		if f == nil {
			f = &Finding{Outcome: r.outcome, Label: "?", Msg: r.errMsg}
		}
		f.Entry = ex.entry.Name()
		key := fmt.Sprintf("%s|%s", r.outcome, f.Label)
		ex.fcount[key]++
		if _, ok := ex.findings[key]; !ok {
			ex.findings[key] = f
		}
		if len(ex.findings) >= 12 {
			ex.stop, ex.stopWhy = true, "many distinct findings"
		}
	case OInconclusive, OEngineError:
		if len(ex.errs) < 5 {
			ex.errs = append(ex.errs, r.outcome.String()+": "+r.errMsg)
		}
		if r.outcome == OEngineError {
			ex.stop, ex.stopWhy = true, "engine error"
		}
	case ODone:
		if r.witness != nil {
			r.witness.Entry = ex.entry.Name()
			ex.valid = append(ex.valid, r.witness)
		}
		if len(ex.samples) < 3 || (ex.paths%97 == int(ex.seed%97) && len(ex.samples) < 8) {
			ex.samples = append(ex.samples, r.sample())
		}
	}
}

func (r *Run) sample() map[string]interface{} {
	var ds []string
	for i, d := range r.log {
		if i >= 40 {
			ds = append(ds, "…")
			break
		}
		switch d.K {
		case DBranch:
			ds = append(ds, fmt.Sprintf("b%d", d.V))
		case DChoose:
			ds = append(ds, fmt.Sprintf("%s=%d/%d", d.Tag, d.V, d.N))
		case DConcretize:
			ds = append(ds, fmt.Sprintf("%s:=%d", d.Tag, d.V))
		}
	}
	var pcs []string
	for i, c := range r.pc {
		if i >= 6 {
			pcs = append(pcs, "…")
			break
		}
		pcs = append(pcs, c.String())
	}
	var ins []string
	for _, in := range r.inputs {
		ins = append(ins, in.Name)
	}
	return map[string]interface{}{
		"decisions": strings.Join(ds, " "), "path_condition_conjuncts": len(r.pc), "path_condition_head": pcs,
		"symbolic_inputs": ins, "instructions": r.steps, "vcs_by_solver": r.vcSolver, "vcs_by_rewriting": r.vcRewrite,
		"covers": sortedKeys(r.covers), "threads": len(r.threads), "schedule": r.sched,
	}
}

// wantValidation picks, deterministically from the seed, which completed paths are re-run natively.
func (ex *Explorer) wantValidation(r *Run) bool {
	max := ex.eng.cfg.ValidatePaths
	if max <= 0 {
		return false
	}
	h := uint64(ex.seed)*1099511628211 + 1469598103934665603
	for _, d := range r.log {
		h = (h ^ uint64(d.V+int64(d.K)*7919)) * 1099511628211
	}
	ex.vmu.Lock()
	defer ex.vmu.Unlock()
	if ex.vtaken >= max {
		return false
	}
	// dense at the start (small explorations), 1 in 16 afterwards
	if ex.vtaken < max/2 || h%16 == 0 {
		ex.vtaken++
		return true
	}
	return false
}

// Explore runs all paths of entry within the configured bounds.
func Explore(e *Engine, entry *ssa.Function, seed int64) (*Explorer, error) {
	ex := &Explorer{eng: e, entry: entry, outcomes: map[Outcome]int{}, covers: map[string]int{}, cuts: map[string]int{},
		findings: map[string]*Finding{}, fcount: map[string]int{}, fnSteps: map[string]int64{}, start: time.Now(), seed: seed}
	ex.cond = sync.NewCond(&ex.mu)
	ex.jobs = [][]Dec{nil}
	nw := e.cfg.Workers
	if nw < 1 {
		nw = 1
	}
	workers := make([]*Worker, nw)
	for i := range workers {
		w, err := NewWorker(e, i)
		if err != nil {
			return nil, err
		}
		workers[i] = w
		w.wantValidation = ex.wantValidation
	}
	// warm-up: first path alone (creates method wrappers etc. single-threaded)
	{
		var wg sync.WaitGroup
		job := ex.jobs[0]
		ex.jobs = nil
		r := workers[0].RunPath(entry, job)
		ex.record(r)
		ex.jobs = append(ex.jobs, r.spawn...)
		_ = wg
	}
	if !ex.stop {
		var wg sync.WaitGroup
		for _, w := range workers {
			wg.Add(1)
			go ex.worker(w, &wg)
		}
		wg.Wait()
	}
	for _, w := range workers {
		ex.solverQ += w.sol.Queries
		ex.solverT += w.sol.Time
		for fn, fi := range w.fninfo {
			if fi.steps > 0 {
				ex.fnSteps[fn.String()] += fi.steps
			}
		}
		w.sol.Close()
	}
	return ex, nil
}

func stackTrace() string {
	buf := make([]byte, 1<<14)
	n := runtimeStack(buf)
	return string(buf[:n])
}

func harnessOverlay(pkgRel, pkgName string, rtFiles map[string]string, harnessFiles []string) (map[string][]byte, error) {
	ov := map[string][]byte{}
	dir := filepath.Join(repoDir, pkgRel)
	for name, text := range rtFiles {
		ov[filepath.Join(dir, name)] = []byte(strings.ReplaceAll(text, "package PKG", "package "+pkgName))
	}
	for _, h := range harnessFiles {
		b, err := os.ReadFile(h)
		if err != nil {
			return nil, err
		}
		ov[filepath.Join(dir, "zz_verif_h_"+filepath.Base(h))] = b
	}
	return ov, nil
}
