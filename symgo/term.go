package main

// Terms: hash-consed SMT terms over Bool, BitVec(w) and FloatingPoint(32|64).
// All integer semantics are Go machine semantics (wrap-around bit-vectors).

import (
	"fmt"
	"math"
	"math/bits"
	"strings"
)

type SortKind uint8

const (
	SBool SortKind = iota
	SBV
	SFP
)

type Sort struct {
	K SortKind
	W int // BV width, FP total width (32/64)
}

var (
	BoolSort = Sort{SBool, 0}
	BV64     = Sort{SBV, 64}
)

func BV(w int) Sort { return Sort{SBV, w} }
func FP(w int) Sort { return Sort{SFP, w} }

func (s Sort) SMT() string {
	switch s.K {
	case SBool:
		return "Bool"
	case SBV:
		return fmt.Sprintf("(_ BitVec %d)", s.W)
	default:
		if s.W == 32 {
			return "(_ FloatingPoint 8 24)"
		}
		return "(_ FloatingPoint 11 53)"
	}
}

type Op uint8

const (
	OpConst Op = iota
	OpSym
	OpUF
	OpAdd
	OpSub
	OpMul
	OpUDiv
	OpSDiv
	OpURem
	OpSRem
	OpShl
	OpLShr
	OpAShr
	OpAnd
	OpOr
	OpXor
	OpNot
	OpNeg
	OpUlt
	OpUle
	OpSlt
	OpSle
	OpEq
	OpIte
	OpZExt
	OpSExt
	OpExtract // c = hi<<16 | lo
	OpBAnd
	OpBOr
	OpBNot
	OpFAdd
	OpFSub
	OpFMul
	OpFDiv
	OpFNeg
	OpFLt
	OpFLe
	OpFEq
	OpFIsNaN
	OpFFromBits // BV -> FP reinterpretation
	OpFFromSInt // signed BV -> FP (RNE)
	OpFFromUInt
	OpFToSInt // FP -> signed BV (RTZ), result width = sort.W
	OpFToUInt
	OpFToFP // FP -> FP other width
)

var opSMT = map[Op]string{
	OpAdd: "bvadd", OpSub: "bvsub", OpMul: "bvmul", OpUDiv: "bvudiv", OpSDiv: "bvsdiv",
	OpURem: "bvurem", OpSRem: "bvsrem", OpShl: "bvshl", OpLShr: "bvlshr", OpAShr: "bvashr",
	OpAnd: "bvand", OpOr: "bvor", OpXor: "bvxor", OpNot: "bvnot", OpNeg: "bvneg",
	OpUlt: "bvult", OpUle: "bvule", OpSlt: "bvslt", OpSle: "bvsle", OpEq: "=", OpIte: "ite",
	OpBAnd: "and", OpBOr: "or", OpBNot: "not",
	OpFAdd: "fp.add RNE", OpFSub: "fp.sub RNE", OpFMul: "fp.mul RNE", OpFDiv: "fp.div RNE",
	OpFNeg: "fp.neg", OpFLt: "fp.lt", OpFLe: "fp.leq", OpFEq: "fp.eq", OpFIsNaN: "fp.isNaN",
}

type Term struct {
	op   Op
	sort Sort
	args []*Term
	c    uint64
	name string
	id   int
	// for OpUF: name = function name; for OpSym: name = symbol name
}

type tkey struct {
	op      Op
	sk      SortKind
	sw      int
	a, b, d int
	c       uint64
	name    string
}

// TermTable is a per-worker hash-cons table.
type TermTable struct {
	tab   map[tkey]*Term
	next  int
	True  *Term
	False *Term
	ufs   map[string]*UFDecl
}

type UFDecl struct {
	name string
	args []Sort
	ret  Sort
}

func NewTermTable() *TermTable {
	tt := &TermTable{tab: map[tkey]*Term{}, ufs: map[string]*UFDecl{}}
	tt.True = tt.mk(OpConst, BoolSort, 1, "")
	tt.False = tt.mk(OpConst, BoolSort, 0, "")
	return tt
}

func (tt *TermTable) mk(op Op, s Sort, c uint64, name string, args ...*Term) *Term {
	k := tkey{op: op, sk: s.K, sw: s.W, c: c, name: name, a: -1, b: -1, d: -1}
	if len(args) > 0 {
		k.a = args[0].id
	}
	if len(args) > 1 {
		k.b = args[1].id
	}
	if len(args) > 2 {
		k.d = args[2].id
	}
	if len(args) > 3 {
		// fold further args into name
		var sb strings.Builder
		sb.WriteString(name)
		for _, a := range args[3:] {
			fmt.Fprintf(&sb, ",%d", a.id)
		}
		k.name = sb.String()
	}
	if t, ok := tt.tab[k]; ok {
		return t
	}
	t := &Term{op: op, sort: s, c: c, name: name, id: tt.next}
	if len(args) > 0 {
		t.args = append([]*Term(nil), args...)
	}
	tt.next++
	tt.tab[k] = t
	return t
}

func mask(w int) uint64 {
	if w >= 64 {
		return ^uint64(0)
	}
	return (uint64(1) << uint(w)) - 1
}

func sext(v uint64, w int) int64 {
	if w >= 64 {
		return int64(v)
	}
	sh := uint(64 - w)
	return int64(v<<sh) >> sh
}

func (t *Term) IsConst() bool { return t.op == OpConst }
func (t *Term) IsTrue() bool  { return t.op == OpConst && t.sort.K == SBool && t.c == 1 }
func (t *Term) IsFalse() bool { return t.op == OpConst && t.sort.K == SBool && t.c == 0 }

func (tt *TermTable) Const(s Sort, v uint64) *Term {
	if s.K == SBV {
		v &= mask(s.W)
	}
	if s.K == SBool {
		if v != 0 {
			return tt.True
		}
		return tt.False
	}
	return tt.mk(OpConst, s, v, "")
}

func (tt *TermTable) Bool(b bool) *Term {
	if b {
		return tt.True
	}
	return tt.False
}

func (tt *TermTable) Int(w int, v int64) *Term { return tt.Const(BV(w), uint64(v)) }

func (tt *TermTable) Sym(s Sort, name string) *Term {
	if s.K == SFP {
		// floats are declared as bit-vectors and reinterpreted, so models are bit patterns
		b := tt.mk(OpSym, BV(s.W), 0, name)
		return tt.mk(OpFFromBits, s, 0, "", b)
	}
	return tt.mk(OpSym, s, 0, name)
}

func (tt *TermTable) UF(name string, ret Sort, args ...*Term) *Term {
	d, ok := tt.ufs[name]
	if !ok {
		d = &UFDecl{name: name, ret: ret}
		for _, a := range args {
			d.args = append(d.args, a.sort)
		}
		tt.ufs[name] = d
	}
	return tt.mk(OpUF, ret, 0, name, args...)
}

// ---- boolean connectives ----

func (tt *TermTable) Not(a *Term) *Term {
	if a.IsConst() {
		return tt.Bool(a.c == 0)
	}
	if a.op == OpBNot {
		return a.args[0]
	}
	return tt.mk(OpBNot, BoolSort, 0, "", a)
}

func (tt *TermTable) And(a, b *Term) *Term {
	if a.IsConst() {
		if a.c == 0 {
			return tt.False
		}
		return b
	}
	if b.IsConst() {
		if b.c == 0 {
			return tt.False
		}
		return a
	}
	if a == b {
		return a
	}
	if a.id > b.id {
		a, b = b, a
	}
	return tt.mk(OpBAnd, BoolSort, 0, "", a, b)
}

func (tt *TermTable) Or(a, b *Term) *Term {
	if a.IsConst() {
		if a.c == 1 {
			return tt.True
		}
		return b
	}
	if b.IsConst() {
		if b.c == 1 {
			return tt.True
		}
		return a
	}
	if a == b {
		return a
	}
	if a.id > b.id {
		a, b = b, a
	}
	return tt.mk(OpBOr, BoolSort, 0, "", a, b)
}

func (tt *TermTable) Ite(c, a, b *Term) *Term {
	if c.IsConst() {
		if c.c == 1 {
			return a
		}
		return b
	}
	if a == b {
		return a
	}
	if a.sort.K == SBool {
		if a.IsConst() && b.IsConst() {
			if a.c == 1 {
				return c
			}
			return tt.Not(c)
		}
		if a.IsTrue() {
			return tt.Or(c, b)
		}
		if a.IsFalse() {
			return tt.And(tt.Not(c), b)
		}
		if b.IsTrue() {
			return tt.Or(tt.Not(c), a)
		}
		if b.IsFalse() {
			return tt.And(c, a)
		}
	}
	return tt.mk(OpIte, a.sort, 0, "", c, a, b)
}

// Eq is structural/bitwise equality (for FP: same bit pattern semantics of SMT "=",
// i.e. NaN = NaN; use FEq for Go's ==).
func (tt *TermTable) Eq(a, b *Term) *Term {
	if a == b {
		return tt.True
	}
	if a.IsConst() && b.IsConst() {
		return tt.Bool(a.c == b.c)
	}
	if a.sort.K == SBool {
		if a.IsConst() {
			if a.c == 1 {
				return b
			}
			return tt.Not(b)
		}
		if b.IsConst() {
			if b.c == 1 {
				return a
			}
			return tt.Not(a)
		}
	}
	if a.sort.K == SBV {
		// addition of a constant is a bijection modulo 2^w:
		//   x+c1 == x+c2  <=>  c1 == c2;   x+c == x  <=>  c == 0;   x+c1 == c2  <=>  x == c2-c1
		addc := func(t *Term) (*Term, uint64, bool) {
			if t.op == OpAdd && t.args[1].IsConst() {
				return t.args[0], t.args[1].c, true
			}
			return t, 0, false
		}
		xa, ca, oka := addc(a)
		xb, cb, okb := addc(b)
		if (oka || okb) && xa == xb {
			return tt.Bool(ca&mask(a.sort.W) == cb&mask(a.sort.W))
		}
		if oka && b.IsConst() {
			return tt.Eq(xa, tt.Const(a.sort, b.c-ca))
		}
		if okb && a.IsConst() {
			return tt.Eq(xb, tt.Const(a.sort, a.c-cb))
		}
	}
	if a.id > b.id {
		a, b = b, a
	}
	return tt.mk(OpEq, BoolSort, 0, "", a, b)
}

// ---- bit-vector ops ----

func evalBV(op Op, w int, x, y uint64) (uint64, bool) {
	m := mask(w)
	switch op {
	case OpAdd:
		return (x + y) & m, true
	case OpSub:
		return (x - y) & m, true
	case OpMul:
		return (x * y) & m, true
	case OpUDiv:
		if y == 0 {
			return m, true
		}
		return x / y, true
	case OpURem:
		if y == 0 {
			return x, true
		}
		return x % y, true
	case OpSDiv:
		sx, sy := sext(x, w), sext(y, w)
		if sy == 0 {
			if sx < 0 {
				return 1, true
			}
			return m, true
		}
		if sy == -1 {
			return uint64(-sx) & m, true
		}
		return uint64(sx/sy) & m, true
	case OpSRem:
		sx, sy := sext(x, w), sext(y, w)
		if sy == 0 {
			return x, true
		}
		if sy == -1 {
			return 0, true
		}
		return uint64(sx%sy) & m, true
	case OpShl:
		if y >= uint64(w) {
			return 0, true
		}
		return (x << y) & m, true
	case OpLShr:
		if y >= uint64(w) {
			return 0, true
		}
		return x >> y, true
	case OpAShr:
		sx := sext(x, w)
		if y >= uint64(w) {
			y = uint64(w - 1)
		}
		return uint64(sx>>y) & m, true
	case OpAnd:
		return x & y, true
	case OpOr:
		return x | y, true
	case OpXor:
		return x ^ y, true
	}
	return 0, false
}

func (tt *TermTable) BinBV(op Op, a, b *Term) *Term {
	w := a.sort.W
	if a.sort != b.sort {
		panic(fmt.Sprintf("BinBV sort mismatch %v %v op %d", a.sort, b.sort, op))
	}
	if a.IsConst() && b.IsConst() {
		v, _ := evalBV(op, w, a.c, b.c)
		return tt.Const(a.sort, v)
	}
	switch op {
	case OpAdd:
		if a.IsConst() && a.c == 0 {
			return b
		}
		if b.IsConst() && b.c == 0 {
			return a
		}
		// (x + c1) + c2
		if b.IsConst() && a.op == OpAdd && a.args[1].IsConst() {
			return tt.BinBV(OpAdd, a.args[0], tt.Const(a.sort, a.args[1].c+b.c))
		}
		if a.IsConst() {
			a, b = b, a
		}
	case OpSub:
		if b.IsConst() && b.c == 0 {
			return a
		}
		if a == b {
			return tt.Const(a.sort, 0)
		}
		if b.IsConst() {
			return tt.BinBV(OpAdd, a, tt.Const(a.sort, -b.c))
		}
		// (x + c) - x = c;  (x + c1) - (x + c2) = c1 - c2;  x - (x + c) = -c
		if a.op == OpAdd && a.args[1].IsConst() {
			if a.args[0] == b {
				return tt.Const(a.sort, a.args[1].c)
			}
			if b.op == OpAdd && b.args[1].IsConst() && a.args[0] == b.args[0] {
				return tt.Const(a.sort, a.args[1].c-b.args[1].c)
			}
		}
		if b.op == OpAdd && b.args[1].IsConst() && b.args[0] == a {
			return tt.Const(a.sort, -b.args[1].c)
		}
	case OpMul:
		if a.IsConst() {
			a, b = b, a
		}
		if b.IsConst() {
			if b.c == 0 {
				return b
			}
			if b.c == 1 {
				return a
			}
		}
	case OpAnd:
		if a == b {
			return a
		}
		if a.IsConst() {
			a, b = b, a
		}
		if b.IsConst() {
			if b.c == 0 {
				return b
			}
			if b.c == mask(w) {
				return a
			}
		}
	case OpOr:
		if a == b {
			return a
		}
		if a.IsConst() {
			a, b = b, a
		}
		if b.IsConst() {
			if b.c == 0 {
				return a
			}
			if b.c == mask(w) {
				return b
			}
		}
	case OpXor:
		if a == b {
			return tt.Const(a.sort, 0)
		}
		if a.IsConst() {
			a, b = b, a
		}
		if b.IsConst() && b.c == 0 {
			return a
		}
	case OpShl, OpLShr, OpAShr:
		if b.IsConst() && b.c == 0 {
			return a
		}
	case OpUDiv, OpSDiv:
		if b.IsConst() && b.c == 1 {
			return a
		}
	}
	return tt.mk(op, a.sort, 0, "", a, b)
}

func (tt *TermTable) NotBV(a *Term) *Term {
	if a.IsConst() {
		return tt.Const(a.sort, ^a.c)
	}
	if a.op == OpNot {
		return a.args[0]
	}
	return tt.mk(OpNot, a.sort, 0, "", a)
}

func (tt *TermTable) NegBV(a *Term) *Term {
	if a.IsConst() {
		return tt.Const(a.sort, -a.c)
	}
	if a.op == OpNeg {
		return a.args[0]
	}
	return tt.mk(OpNeg, a.sort, 0, "", a)
}

func (tt *TermTable) CmpBV(op Op, a, b *Term) *Term {
	w := a.sort.W
	if a.sort != b.sort {
		panic(fmt.Sprintf("CmpBV sort mismatch %v %v", a.sort, b.sort))
	}
	if a.IsConst() && b.IsConst() {
		switch op {
		case OpUlt:
			return tt.Bool(a.c < b.c)
		case OpUle:
			return tt.Bool(a.c <= b.c)
		case OpSlt:
			return tt.Bool(sext(a.c, w) < sext(b.c, w))
		case OpSle:
			return tt.Bool(sext(a.c, w) <= sext(b.c, w))
		}
	}
	if a == b {
		return tt.Bool(op == OpUle || op == OpSle)
	}
	// trivial bounds
	switch op {
	case OpUlt:
		if b.IsConst() && b.c == 0 {
			return tt.False
		}
	case OpUle:
		if a.IsConst() && a.c == 0 {
			return tt.True
		}
	}
	return tt.mk(op, BoolSort, 0, "", a, b)
}

func (tt *TermTable) ZExt(a *Term, w int) *Term {
	if a.sort.W == w {
		return a
	}
	if a.IsConst() {
		return tt.Const(BV(w), a.c)
	}
	return tt.mk(OpZExt, BV(w), uint64(w-a.sort.W), "", a)
}

func (tt *TermTable) SExt(a *Term, w int) *Term {
	if a.sort.W == w {
		return a
	}
	if a.IsConst() {
		return tt.Const(BV(w), uint64(sext(a.c, a.sort.W)))
	}
	return tt.mk(OpSExt, BV(w), uint64(w-a.sort.W), "", a)
}

func (tt *TermTable) Extract(a *Term, hi, lo int) *Term {
	w := hi - lo + 1
	if lo == 0 && w == a.sort.W {
		return a
	}
	if a.IsConst() {
		return tt.Const(BV(w), a.c>>uint(lo))
	}
	if lo == 0 && (a.op == OpZExt || a.op == OpSExt) && a.args[0].sort.W == w {
		return a.args[0]
	}
	return tt.mk(OpExtract, BV(w), uint64(hi)<<16|uint64(lo), "", a)
}

// ---- floating point ----

func fbits(w int, f float64) uint64 {
	if w == 32 {
		return uint64(math.Float32bits(float32(f)))
	}
	return math.Float64bits(f)
}

func ffrom(w int, b uint64) float64 {
	if w == 32 {
		return float64(math.Float32frombits(uint32(b)))
	}
	return math.Float64frombits(b)
}

func (tt *TermTable) FConst(w int, f float64) *Term { return tt.mk(OpConst, FP(w), fbits(w, f), "") }

func (tt *TermTable) FBin(op Op, a, b *Term) *Term {
	w := a.sort.W
	if a.IsConst() && b.IsConst() {
		x, y := ffrom(w, a.c), ffrom(w, b.c)
		var r float64
		switch op {
		case OpFAdd:
			r = x + y
		case OpFSub:
			r = x - y
		case OpFMul:
			r = x * y
		case OpFDiv:
			r = x / y
		}
		if w == 32 {
			r = float64(float32(r))
		}
		return tt.FConst(w, r)
	}
	return tt.mk(op, a.sort, 0, "", a, b)
}

func (tt *TermTable) FNeg(a *Term) *Term {
	if a.IsConst() {
		return tt.FConst(a.sort.W, -ffrom(a.sort.W, a.c))
	}
	return tt.mk(OpFNeg, a.sort, 0, "", a)
}

func (tt *TermTable) FCmp(op Op, a, b *Term) *Term {
	if a.IsConst() && b.IsConst() {
		x, y := ffrom(a.sort.W, a.c), ffrom(a.sort.W, b.c)
		switch op {
		case OpFLt:
			return tt.Bool(x < y)
		case OpFLe:
			return tt.Bool(x <= y)
		case OpFEq:
			return tt.Bool(x == y)
		}
	}
	return tt.mk(op, BoolSort, 0, "", a, b)
}

func (tt *TermTable) FIsNaN(a *Term) *Term {
	if a.IsConst() {
		f := ffrom(a.sort.W, a.c)
		return tt.Bool(f != f)
	}
	return tt.mk(OpFIsNaN, BoolSort, 0, "", a)
}

func (tt *TermTable) FFromBits(a *Term) *Term {
	if a.IsConst() {
		return tt.mk(OpConst, FP(a.sort.W), a.c, "")
	}
	return tt.mk(OpFFromBits, FP(a.sort.W), 0, "", a)
}

func (tt *TermTable) FFromInt(a *Term, signed bool, w int) *Term {
	if a.IsConst() {
		if signed {
			return tt.FConst(w, float64(sext(a.c, a.sort.W)))
		}
		return tt.FConst(w, float64(a.c))
	}
	if signed {
		return tt.mk(OpFFromSInt, FP(w), 0, "", a)
	}
	return tt.mk(OpFFromUInt, FP(w), 0, "", a)
}

func (tt *TermTable) FToInt(a *Term, signed bool, w int) *Term {
	if a.IsConst() {
		f := ffrom(a.sort.W, a.c)
		if signed {
			return tt.Const(BV(w), uint64(int64(f)))
		}
		return tt.Const(BV(w), uint64(f))
	}
	if signed {
		return tt.mk(OpFToSInt, BV(w), 0, "", a)
	}
	return tt.mk(OpFToUInt, BV(w), 0, "", a)
}

func (tt *TermTable) FToFP(a *Term, w int) *Term {
	if a.sort.W == w {
		return a
	}
	if a.IsConst() {
		return tt.FConst(w, ffrom(a.sort.W, a.c))
	}
	return tt.mk(OpFToFP, FP(w), 0, "", a)
}

// ---- concrete evaluation under a model (symbol name -> bits). UF apps looked up in ufv. ----

type Model struct {
	syms map[string]uint64
	ufv  map[int]uint64 // term id of UF application -> value
}

func (m *Model) Eval(t *Term) (uint64, bool) {
	switch t.op {
	case OpConst:
		return t.c, true
	case OpSym:
		v, ok := m.syms[t.name]
		if !ok {
			return 0, true // unconstrained: any value, pick 0
		}
		return v, true
	case OpUF:
		v, ok := m.ufv[t.id]
		return v, ok
	}
	var av [3]uint64
	for i, a := range t.args {
		if i >= 3 {
			break
		}
		v, ok := m.Eval(a)
		if !ok {
			return 0, false
		}
		av[i] = v
	}
	w := t.sort.W
	switch t.op {
	case OpAdd, OpSub, OpMul, OpUDiv, OpSDiv, OpURem, OpSRem, OpShl, OpLShr, OpAShr, OpAnd, OpOr, OpXor:
		v, _ := evalBV(t.op, w, av[0], av[1])
		return v, true
	case OpNot:
		return ^av[0] & mask(w), true
	case OpNeg:
		return -av[0] & mask(w), true
	case OpUlt:
		return b2u(av[0] < av[1]), true
	case OpUle:
		return b2u(av[0] <= av[1]), true
	case OpSlt:
		aw := t.args[0].sort.W
		return b2u(sext(av[0], aw) < sext(av[1], aw)), true
	case OpSle:
		aw := t.args[0].sort.W
		return b2u(sext(av[0], aw) <= sext(av[1], aw)), true
	case OpEq:
		return b2u(av[0] == av[1]), true
	case OpIte:
		if av[0] != 0 {
			return av[1], true
		}
		return av[2], true
	case OpZExt:
		return av[0], true
	case OpSExt:
		return uint64(sext(av[0], t.args[0].sort.W)) & mask(w), true
	case OpExtract:
		lo := int(t.c & 0xffff)
		return (av[0] >> uint(lo)) & mask(w), true
	case OpBAnd:
		return b2u(av[0] != 0 && av[1] != 0), true
	case OpBOr:
		return b2u(av[0] != 0 || av[1] != 0), true
	case OpBNot:
		return b2u(av[0] == 0), true
	case OpFFromBits:
		return av[0], true
	case OpFAdd, OpFSub, OpFMul, OpFDiv:
		x, y := ffrom(w, av[0]), ffrom(w, av[1])
		var r float64
		switch t.op {
		case OpFAdd:
			r = x + y
		case OpFSub:
			r = x - y
		case OpFMul:
			r = x * y
		default:
			r = x / y
		}
		return fbits(w, r), true
	case OpFNeg:
		return fbits(w, -ffrom(w, av[0])), true
	case OpFLt:
		aw := t.args[0].sort.W
		return b2u(ffrom(aw, av[0]) < ffrom(aw, av[1])), true
	case OpFLe:
		aw := t.args[0].sort.W
		return b2u(ffrom(aw, av[0]) <= ffrom(aw, av[1])), true
	case OpFEq:
		aw := t.args[0].sort.W
		return b2u(ffrom(aw, av[0]) == ffrom(aw, av[1])), true
	case OpFIsNaN:
		f := ffrom(t.args[0].sort.W, av[0])
		return b2u(f != f), true
	case OpFFromSInt:
		return fbits(w, float64(sext(av[0], t.args[0].sort.W))), true
	case OpFFromUInt:
		return fbits(w, float64(av[0])), true
	case OpFToSInt:
		return uint64(int64(ffrom(t.args[0].sort.W, av[0]))) & mask(w), true
	case OpFToUInt:
		return uint64(ffrom(t.args[0].sort.W, av[0])) & mask(w), true
	case OpFToFP:
		return fbits(w, ffrom(t.args[0].sort.W, av[0])), true
	}
	return 0, false
}

func b2u(b bool) uint64 {
	if b {
		return 1
	}
	return 0
}

// ---- SMT-LIB printing ----

// Printer emits declarations and definitions incrementally; it is reset per run
// (the solver scope is popped, so everything must be re-declared).
type Printer struct {
	tt       *TermTable
	defined  map[int]string // term id -> reference text
	declared map[string]bool
	out      *strings.Builder
}

func NewPrinter(tt *TermTable) *Printer {
	return &Printer{tt: tt, defined: map[int]string{}, declared: map[string]bool{}, out: &strings.Builder{}}
}

func (p *Printer) Reset() {
	p.defined = map[int]string{}
	p.declared = map[string]bool{}
	p.out.Reset()
}

func smtName(n string) string { return "|" + strings.ReplaceAll(n, "|", "_") + "|" }

func constText(t *Term) string {
	switch t.sort.K {
	case SBool:
		if t.c != 0 {
			return "true"
		}
		return "false"
	case SBV:
		if t.sort.W%4 == 0 {
			return fmt.Sprintf("#x%0*x", t.sort.W/4, t.c)
		}
		return fmt.Sprintf("#b%0*b", t.sort.W, t.c)
	default:
		if t.sort.W == 32 {
			return fmt.Sprintf("((_ to_fp 8 24) #x%08x)", t.c)
		}
		return fmt.Sprintf("((_ to_fp 11 53) #x%016x)", t.c)
	}
}

// Ref returns text that denotes t, emitting any needed declarations/definitions into p.out.
func (p *Printer) Ref(t *Term) string {
	if t.op == OpConst {
		return constText(t)
	}
	if r, ok := p.defined[t.id]; ok {
		return r
	}
	var r string
	switch t.op {
	case OpSym:
		r = smtName(t.name)
		if !p.declared[t.name] {
			p.declared[t.name] = true
			fmt.Fprintf(p.out, "(declare-const %s %s)\n", r, t.sort.SMT())
		}
		p.defined[t.id] = r
		return r
	}
	// iterative post-order to avoid deep recursion on long chains
	type fr struct {
		t *Term
		i int
	}
	stack := []fr{{t, 0}}
	for len(stack) > 0 {
		f := &stack[len(stack)-1]
		if f.i < len(f.t.args) {
			a := f.t.args[f.i]
			f.i++
			if a.op == OpConst {
				continue
			}
			if _, ok := p.defined[a.id]; ok {
				continue
			}
			if a.op == OpSym {
				p.Ref(a)
				continue
			}
			stack = append(stack, fr{a, 0})
			continue
		}
		cur := f.t
		stack = stack[:len(stack)-1]
		if _, ok := p.defined[cur.id]; ok {
			continue
		}
		p.define(cur)
	}
	return p.defined[t.id]
}

func (p *Printer) define(t *Term) {
	args := make([]string, len(t.args))
	for i, a := range t.args {
		if a.op == OpConst {
			args[i] = constText(a)
		} else {
			args[i] = p.defined[a.id]
		}
	}
	var body string
	switch t.op {
	case OpUF:
		if !p.declared["uf:"+t.name] {
			p.declared["uf:"+t.name] = true
			d := p.tt.ufs[t.name]
			ss := make([]string, len(d.args))
			for i, s := range d.args {
				ss[i] = s.SMT()
			}
			fmt.Fprintf(p.out, "(declare-fun %s (%s) %s)\n", smtName("uf_"+t.name), strings.Join(ss, " "), d.ret.SMT())
		}
		body = fmt.Sprintf("(%s %s)", smtName("uf_"+t.name), strings.Join(args, " "))
	case OpZExt:
		body = fmt.Sprintf("((_ zero_extend %d) %s)", t.c, args[0])
	case OpSExt:
		body = fmt.Sprintf("((_ sign_extend %d) %s)", t.c, args[0])
	case OpExtract:
		body = fmt.Sprintf("((_ extract %d %d) %s)", t.c>>16, t.c&0xffff, args[0])
	case OpFFromBits:
		if t.sort.W == 32 {
			body = fmt.Sprintf("((_ to_fp 8 24) %s)", args[0])
		} else {
			body = fmt.Sprintf("((_ to_fp 11 53) %s)", args[0])
		}
	case OpFFromSInt, OpFFromUInt, OpFToFP:
		eb, sb := 11, 53
		if t.sort.W == 32 {
			eb, sb = 8, 24
		}
		fn := "to_fp"
		if t.op == OpFFromUInt {
			fn = "to_fp_unsigned"
		}
		body = fmt.Sprintf("((_ %s %d %d) RNE %s)", fn, eb, sb, args[0])
	case OpFToSInt:
		body = fmt.Sprintf("((_ fp.to_sbv %d) RTZ %s)", t.sort.W, args[0])
	case OpFToUInt:
		body = fmt.Sprintf("((_ fp.to_ubv %d) RTZ %s)", t.sort.W, args[0])
	default:
		s, ok := opSMT[t.op]
		if !ok {
			panic(fmt.Sprintf("no SMT for op %d", t.op))
		}
		body = fmt.Sprintf("(%s %s)", s, strings.Join(args, " "))
	}
	name := fmt.Sprintf("t%d", t.id)
	fmt.Fprintf(p.out, "(define-fun %s () %s %s)\n", name, t.sort.SMT(), body)
	p.defined[t.id] = name
}

// Flush returns and clears pending declaration text.
func (p *Printer) Flush() string {
	s := p.out.String()
	p.out.Reset()
	return s
}

// String renders a term as a readable expression (for evidence samples / debugging).
func (t *Term) String() string {
	var sb strings.Builder
	t.write(&sb, 0)
	return sb.String()
}

func (t *Term) write(sb *strings.Builder, depth int) {
	if depth > 6 {
		sb.WriteString("…")
		return
	}
	switch t.op {
	case OpConst:
		if t.sort.K == SBool {
			fmt.Fprintf(sb, "%v", t.c != 0)
		} else if t.sort.K == SBV {
			fmt.Fprintf(sb, "%d", sext(t.c, t.sort.W))
		} else {
			fmt.Fprintf(sb, "%g", ffrom(t.sort.W, t.c))
		}
	case OpSym:
		sb.WriteString(t.name)
	case OpUF:
		sb.WriteString(t.name)
		sb.WriteByte('(')
		for i, a := range t.args {
			if i > 0 {
				sb.WriteByte(',')
			}
			a.write(sb, depth+1)
		}
		sb.WriteByte(')')
	default:
		s := opSMT[t.op]
		if s == "" {
			s = fmt.Sprintf("op%d", t.op)
		}
		sb.WriteByte('(')
		sb.WriteString(s)
		for _, a := range t.args {
			sb.WriteByte(' ')
			a.write(sb, depth+1)
		}
		sb.WriteByte(')')
	}
}

var _ = bits.Len
