package main

// One Run = one symbolic path: a decision prefix is replayed, then new decisions
// are taken (first alternative), siblings are handed back to the driver.

import (
	"fmt"
	"go/token"
	"os"
	"sort"
	"strings"

	"golang.org/x/tools/go/ssa"
)

type DecKind uint8

const (
	DBranch DecKind = iota
	DConcretize
	DChoose
)

type Dec struct {
	K          DecKind
	N          int     // DChoose: number of alternatives
	V          int64   // chosen alternative / branch side (1/0) / concretised value
	Excl       []int64 // DConcretize with Fresh: values already explored
	Fresh      bool    // DConcretize in a prefix: pick a value not in Excl
	Unverified bool    // DBranch in a prefix: feasibility of this side not yet known
	Tag        string
}

type Outcome int

const (
	ODone Outcome = iota
	OInfeasible
	OViolation // assertion failure (solver sat on pi && !c)
	OCrash     // panic escaped the harness / a thread
	ORace
	ODeadlock
	OUnwind
	OInconclusive
	OEngineError
	OCut
)

var outcomeNames = [...]string{"done", "infeasible", "violation", "crash", "race", "deadlock", "unwind", "inconclusive", "engine-error", "cut"}

func (o Outcome) String() string { return outcomeNames[o] }

type InputRec struct {
	Name string // name#occ
	Sort Sort
	Sym  *Term // the declared symbol (BV for floats)
	Kind string
}

type Finding struct {
	Outcome  Outcome
	Label    string
	Msg      string
	Pos      string
	Inputs   map[string]uint64
	Choices  map[string]int64
	UFTables map[string][][]uint64 // name -> rows of args..., result
	Decs     []Dec
	Sched    []int
	Partners []int
	Trace    []string
	Entry    string
	Observed []string // vObserve lines predicted under this model
}

type abortRun struct{}

type Run struct {
	maxT    int   // thread limit (length of every vector clock)
	lastNow *Term // the previous reading of the clock (time.Now is non-decreasing)
	clockN  int64 // readings taken so far (Config.ClockTickNs)
	w       *Worker
	eng     *Engine
	tt      *TermTable
	prefix  []Dec
	log     []Dec
	spawn   [][]Dec // sibling jobs produced by this run

	pc    []*Term
	atoms map[int]bool

	inputs   []InputRec
	inputOcc map[string]int
	chooses  map[string]int64
	ufApps   []*Term
	covers   map[string]bool
	observes []observeRec

	threads      []*Thread
	cur          *Thread
	lastRun      *Thread
	multi        bool
	preemptions  int
	sched        []int
	schedPartner []int
	timers       []*timerEnv
	globals      map[*ssa.Global]*Slot
	nextObj      int
	steps        int
	pools        map[*Slot]*poolModel
	cuts         map[string]bool
	mutexes      map[*Slot]*mutexState
	conds        map[*Slot]*condState
	builders     map[*Slot]*builderState
	timerBySlot  map[*Slot]*timerEnv
	clock        int
	mapOrderOff  bool
	ordS, ordU   *ordGraph
	pure         pureOrder
	qOrder       int // feasibility questions decided by the pure-order procedure

	outcome Outcome
	finding *Finding
	witness *Finding
	errMsg  string

	// stats
	qFeas, qVC, vcRewrite, vcSolver, vcInherited int
}

type observeRec struct {
	label string
	val   Value
}

func (r *Run) abort(o Outcome, msg string) {
	r.outcome = o
	r.errMsg = msg
	panic(abortRun{})
}

func (r *Run) fail(msg string) {
	pos := ""
	if r.cur != nil && len(r.cur.frames) > 0 {
		fr := r.cur.top()
		pos = fmt.Sprintf(" in %s", fr.fn.String())
		if fr.block != nil && fr.pc < len(fr.block.Instrs) {
			pos += " at " + r.eng.posOf(fr.block.Instrs[fr.pc].Pos()) + " instr " + fr.block.Instrs[fr.pc].String()
		}
	}
	r.abort(OEngineError, msg+pos)
}

func (e *Engine) posOf(p token.Pos) string {
	if !p.IsValid() {
		return "?"
	}
	pp := e.prog.Fset.Position(p)
	return fmt.Sprintf("%s:%d", pp.Filename, pp.Line)
}

// ---- path condition ----

func (r *Run) known(c *Term) (bool, bool) {
	if c.IsConst() {
		return c.c != 0, true
	}
	if v, ok := r.atoms[c.id]; ok {
		return v, true
	}
	if c.op == OpBNot {
		if v, ok := r.atoms[c.args[0].id]; ok {
			return !v, true
		}
		if v, ok := r.ordKnown(c.args[0]); ok {
			return !v, true
		}
		return false, false
	}
	if v, ok := r.ordKnown(c); ok {
		return v, true
	}
	return false, false
}

func (r *Run) note(c *Term, val bool) {
	r.atoms[c.id] = val
	r.ordNote(c, val)
	if c.op == OpBNot {
		r.note(c.args[0], !val)
		return
	}
	if val && c.op == OpBAnd {
		r.note(c.args[0], true)
		r.note(c.args[1], true)
	}
	if !val && c.op == OpBOr {
		r.note(c.args[0], false)
		r.note(c.args[1], false)
	}
}

// assume adds c to the path condition (and to the solver).
func (r *Run) assume(c *Term) {
	if c.IsTrue() {
		return
	}
	r.pc = append(r.pc, c)
	r.note(c, true)
	r.pure.add(c, true)
	ref := r.w.pr.Ref(c)
	r.w.sol.Raw(r.w.pr.Flush())
	r.w.sol.Assert(ref)
}

// feasible asks whether pi && c is satisfiable: by the pure-order procedure while it applies,
// by the solver otherwise.
func (r *Run) feasible(c *Term) SatResult {
	if sat, ok := r.pure.sat(c, true); ok {
		res := Unsat
		if sat {
			res = Sat
		}
		if ordCheck {
			if chk := r.checkWith(c); chk != res {
				r.abort(OEngineError, fmt.Sprintf("pure-order procedure says %v, solver says %v for %s", res, chk, c))
			}
		}
		r.qOrder++
		return res
	}
	r.qFeas++
	return r.checkWith(c)
}

var ordCheck = os.Getenv("SYMGO_ORDCHECK") != ""

// checkWith asks whether pi && c is satisfiable.
func (r *Run) checkWith(c *Term) SatResult {
	ref := r.w.pr.Ref(c)
	s := r.w.sol
	s.Raw(r.w.pr.Flush())
	res, msg := s.CheckAssuming(ref)
	if res == Unknown {
		r.abort(OInconclusive, "solver: "+msg)
	}
	return res
}

// branch decides a symbolic boolean, forking the exploration when both sides are feasible.
func (r *Run) branch(c *Term) bool {
	if v, ok := r.known(c); ok {
		return v
	}
	i := len(r.log)
	if i < len(r.prefix) {
		d := r.prefix[i]
		if d.K != DBranch {
			r.abort(OEngineError, fmt.Sprintf("nondeterministic replay: decision %d is %v, expected branch (%s)", i, d.K, d.Tag))
		}
		side := c
		if d.V == 0 {
			side = r.tt.Not(c)
		}
		if d.Unverified {
			if r.feasible(side) == Unsat {
				r.abort(OInfeasible, "")
			}
			d.Unverified = false
		}
		r.log = append(r.log, d)
		r.assume(side)
		return d.V != 0
	}
	if r.feasible(c) == Sat {
		r.log = append(r.log, Dec{K: DBranch, V: 1})
		if r.feasible(r.tt.Not(c)) == Sat {
			alt := append(append([]Dec(nil), r.log[:i]...), Dec{K: DBranch, V: 0})
			r.spawn = append(r.spawn, alt)
			r.assume(c)
		} else {
			// pi implies c
			r.pc = append(r.pc, c)
			r.note(c, true)
		}
		return true
	}
	// pi implies !c: no need to tell the solver
	r.log = append(r.log, Dec{K: DBranch, V: 0})
	nc := r.tt.Not(c)
	r.pc = append(r.pc, nc)
	r.note(nc, true)
	return false
}

// choose is an engine-level case split over n alternatives.
func (r *Run) choose(n int, tag string) int {
	if n <= 1 {
		return 0
	}
	i := len(r.log)
	if i < len(r.prefix) {
		d := r.prefix[i]
		if d.K != DChoose || d.N != n {
			r.abort(OEngineError, fmt.Sprintf("nondeterministic replay: decision %d is kind %v n=%d tag=%s, expected choose n=%d tag=%s", i, d.K, d.N, d.Tag, n, tag))
		}
		r.log = append(r.log, d)
		return int(d.V)
	}
	r.log = append(r.log, Dec{K: DChoose, N: n, V: 0, Tag: tag})
	for a := n - 1; a >= 1; a-- {
		alt := append(append([]Dec(nil), r.log[:i]...), Dec{K: DChoose, N: n, V: int64(a), Tag: tag})
		r.spawn = append(r.spawn, alt)
	}
	return 0
}

// concretize enumerates the feasible values of t with the solver: one path per value.
func (r *Run) concretize(t *Term, tag string) int64 {
	w := t.sort.W
	if t.IsConst() {
		return sext(t.c, w)
	}
	i := len(r.log)
	if i < len(r.prefix) {
		d := r.prefix[i]
		if d.K != DConcretize {
			r.abort(OEngineError, fmt.Sprintf("nondeterministic replay: decision %d kind %v, expected concretize (%s)", i, d.K, tag))
		}
		if d.Fresh {
			// last element of the prefix: its siblings have not been looked for yet
			r.nextValue(t, i, append(append([]int64(nil), d.Excl...), d.V), tag)
			d.Fresh = false
			d.Excl = nil
		}
		r.log = append(r.log, d)
		r.assume(r.tt.Eq(t, r.tt.Const(t.sort, uint64(d.V))))
		return d.V
	}
	v, ok := r.findValue(t, nil)
	if !ok {
		r.abort(OInfeasible, "")
	}
	r.nextValue(t, i, []int64{v}, tag)
	r.log = append(r.log, Dec{K: DConcretize, V: v, Tag: tag})
	r.assume(r.tt.Eq(t, r.tt.Const(t.sort, uint64(v))))
	return v
}

// findValue asks the solver for a value of t (under pi) outside excl.
func (r *Run) findValue(t *Term, excl []int64) (int64, bool) {
	cond := r.tt.True
	for _, e := range excl {
		cond = r.tt.And(cond, r.tt.Not(r.tt.Eq(t, r.tt.Const(t.sort, uint64(e)))))
	}
	ref := r.w.pr.Ref(cond)
	tref := r.w.pr.Ref(t)
	s := r.w.sol
	s.Raw(r.w.pr.Flush())
	s.Push()
	s.Assert(ref)
	r.qFeas++
	res, msg := s.Check()
	if res == Unknown {
		s.Pop()
		r.abort(OInconclusive, "solver: "+msg)
	}
	if res == Unsat {
		s.Pop()
		return 0, false
	}
	vals, err := s.GetValues([]string{tref})
	s.Pop()
	if err != nil {
		r.abort(OInconclusive, "get-value: "+err.Error())
	}
	return sext(vals[0], t.sort.W), true
}

// nextValue spawns the sibling path for one more feasible value of t, if there is one.
func (r *Run) nextValue(t *Term, i int, excl []int64, tag string) {
	if len(excl) > r.eng.cfg.MaxConcretize {
		r.abort(OUnwind, fmt.Sprintf("more than %d feasible values while concretising %s", r.eng.cfg.MaxConcretize, tag))
	}
	v, ok := r.findValue(t, excl)
	if !ok {
		return
	}
	alt := append(append([]Dec(nil), r.log[:i]...), Dec{K: DConcretize, V: v, Fresh: true, Excl: excl, Tag: tag})
	r.spawn = append(r.spawn, alt)
}

// ---- verification conditions ----

func (r *Run) vassert(c *Term, label string) {
	if v, ok := r.known(c); ok && v {
		r.vcRewrite++
		return
	}
	if len(r.log) < len(r.prefix) {
		// still inside the replayed prefix: the path that spawned this one met the same
		// assertion under the same path condition and discharged it
		r.vcInherited++
		r.note(c, true)
		return
	}
	orig := c // what is recorded as known must not depend on how the VC was discharged (replay determinism)
	if c2 := r.simp(c, map[int]*Term{}); c2 != c {
		if c2.IsTrue() {
			if ordCheck && r.checkWith(r.tt.Not(c)) != Unsat {
				r.abort(OEngineError, "rewriting under the path condition proved a VC the solver refutes: "+label)
			}
			r.vcRewrite++
			r.note(c, true)
			return
		}
		if ordCheck {
			// the rewritten VC must be equivalent to the original under the path condition
			if r.checkWith(r.tt.Not(r.tt.Eq(c, c2))) != Unsat {
				r.abort(OEngineError, "rewriting under the path condition changed the meaning of a VC: "+label)
			}
		}
		c = c2
	}
	r.vcSolver++
	r.qVC++
	nc := r.tt.Not(c)
	ref := r.w.pr.Ref(nc)
	s := r.w.sol
	s.Raw(r.w.pr.Flush())
	res, msg := s.CheckAssuming(ref)
	if res == Unknown {
		r.abort(OInconclusive, "solver (VC "+label+"): "+msg)
	}
	if res == Unsat {
		r.note(orig, true)
		return
	}
	// sat: re-establish the model inside a scope so that values can be read
	s.Push()
	s.Assert(ref)
	if res2, _ := s.Check(); res2 != Sat {
		s.Pop()
		r.abort(OInconclusive, "solver (VC "+label+"): sat under assumption but not when asserted")
	}
	f := r.extractModel(OViolation, label, "assertion can fail")
	s.Pop()
	r.finding = f
	r.abort(OViolation, label)
}

// extractModel reads the model of the current (sat) solver state into a Finding.
func (r *Run) extractModel(o Outcome, label, msg string) *Finding {
	f := &Finding{Outcome: o, Label: label, Msg: msg, Inputs: map[string]uint64{}, Choices: map[string]int64{}, UFTables: map[string][][]uint64{}}
	f.Pos = r.where()
	var refs []string
	for _, in := range r.inputs {
		refs = append(refs, r.w.pr.Ref(in.Sym))
	}
	type ufq struct {
		t    *Term
		base int
	}
	var ufqs []ufq
	for _, u := range r.ufApps {
		q := ufq{t: u, base: len(refs)}
		for _, a := range u.args {
			refs = append(refs, r.w.pr.Ref(a))
		}
		refs = append(refs, r.w.pr.Ref(u))
		ufqs = append(ufqs, q)
	}
	pending := r.w.pr.Flush()
	if pending != "" {
		// new definitions after check-sat would invalidate the model in some solvers; re-check
		r.w.sol.Raw(pending)
		res, _ := r.w.sol.Check()
		if res != Sat {
			r.abort(OInconclusive, "model re-check failed")
		}
	}
	vals, err := r.w.sol.GetValues(refs)
	if err != nil {
		r.abort(OInconclusive, "get-value: "+err.Error())
	}
	for i, in := range r.inputs {
		f.Inputs[in.Name] = vals[i]
	}
	for _, q := range ufqs {
		row := make([]uint64, 0, len(q.t.args)+1)
		for k := range q.t.args {
			row = append(row, vals[q.base+k])
		}
		row = append(row, vals[q.base+len(q.t.args)])
		f.UFTables[q.t.name] = append(f.UFTables[q.t.name], row)
	}
	for k, v := range r.chooses {
		f.Choices[k] = v
	}
	f.Decs = append([]Dec(nil), r.log...)
	f.Sched = append([]int(nil), r.sched...)
	f.Partners = append([]int(nil), r.schedPartner...)
	return f
}

// modelForPath solves the bare path condition and returns a Finding-shaped witness.
func (r *Run) modelForPath(o Outcome, label, msg string) *Finding {
	s := r.w.sol
	s.Raw(r.w.pr.Flush())
	res, m := s.Check()
	if res != Sat {
		r.abort(OInconclusive, "path condition not sat when extracting witness: "+m)
	}
	return r.extractModel(o, label, msg)
}

func (r *Run) where() string {
	if r.cur == nil {
		return ""
	}
	var parts []string
	for i := len(r.cur.frames) - 1; i >= 0 && len(parts) < 6; i-- {
		fr := r.cur.frames[i]
		p := "?"
		if fr.block != nil && fr.pc < len(fr.block.Instrs) {
			p = r.eng.posOf(fr.block.Instrs[fr.pc].Pos())
		}
		parts = append(parts, fr.fn.Name()+"@"+p)
	}
	return strings.Join(parts, " <- ")
}

// crash ends the path with a witness (unexpected panic, race, deadlock, unwinding failure).
func (r *Run) crash(o Outcome, label, msg string) {
	f := r.modelForPath(o, label, msg)
	r.finding = f
	r.abort(o, label+": "+msg)
}

func sortedKeys(m map[string]bool) []string {
	var ks []string
	for k := range m {
		ks = append(ks, k)
	}
	sort.Strings(ks)
	return ks
}

// evalObserved predicts the vObserve output of this path under the witness model.
func (r *Run) evalObserved(f *Finding) []string {
	m := &Model{syms: f.Inputs, ufv: map[int]uint64{}}
	for _, u := range r.ufApps {
		// find the row for this application
		row := make([]uint64, 0, len(u.args))
		ok := true
		for _, a := range u.args {
			v, o := m.Eval(a)
			if !o {
				ok = false
				break
			}
			row = append(row, v)
		}
		if !ok {
			continue
		}
	rows:
		for _, tr := range f.UFTables[u.name] {
			for i := range row {
				if tr[i] != row[i] {
					continue rows
				}
			}
			m.ufv[u.id] = tr[len(row)]
			break
		}
	}
	var out []string
	for _, o := range r.observes {
		t, ok := o.val.(*Term)
		if !ok {
			continue
		}
		v, ok := m.Eval(t)
		if !ok {
			continue
		}
		out = append(out, fmt.Sprintf("OBS %s %d", o.label, sext(v, t.sort.W)))
	}
	return out
}

// simp rewrites a term under the facts already on the path: every Boolean sub-term whose
// truth value is known (an atom of the path condition, or a comparison the order closure
// decides) is replaced by that value and the term is rebuilt with the simplifying
// constructors. The result is equivalent to t under the path condition.
func (r *Run) simp(t *Term, memo map[int]*Term) *Term {
	if t.IsConst() || t.op == OpSym {
		return t
	}
	if m, ok := memo[t.id]; ok {
		return m
	}
	tt := r.tt
	out := t
	if t.sort.K == SBool {
		if v, ok := r.known(t); ok {
			out = tt.Bool(v)
			memo[t.id] = out
			return out
		}
	}
	switch t.op {
	case OpBNot:
		out = tt.Not(r.simp(t.args[0], memo))
	case OpBAnd:
		a := r.simp(t.args[0], memo)
		if a.IsFalse() {
			out = a
		} else {
			out = tt.And(a, r.simp(t.args[1], memo))
		}
	case OpBOr:
		a := r.simp(t.args[0], memo)
		if a.IsTrue() {
			out = a
		} else {
			out = tt.Or(a, r.simp(t.args[1], memo))
		}
	case OpIte:
		c := r.simp(t.args[0], memo)
		switch {
		case c.IsTrue():
			out = r.simp(t.args[1], memo)
		case c.IsFalse():
			out = r.simp(t.args[2], memo)
		default:
			out = tt.Ite(c, r.simp(t.args[1], memo), r.simp(t.args[2], memo))
		}
	case OpEq:
		if t.args[0].sort.K == SFP {
			break
		}
		out = tt.Eq(r.simp(t.args[0], memo), r.simp(t.args[1], memo))
	case OpUlt, OpUle, OpSlt, OpSle:
		out = tt.CmpBV(t.op, r.simp(t.args[0], memo), r.simp(t.args[1], memo))
	case OpAdd, OpSub, OpMul, OpAnd, OpOr, OpXor:
		out = tt.BinBV(t.op, r.simp(t.args[0], memo), r.simp(t.args[1], memo))
	case OpZExt:
		out = tt.ZExt(r.simp(t.args[0], memo), t.sort.W)
	case OpSExt:
		out = tt.SExt(r.simp(t.args[0], memo), t.sort.W)
	}
	if out != t && out.sort.K == SBool && !out.IsConst() {
		if v, ok := r.known(out); ok {
			out = tt.Bool(v)
		}
	}
	memo[t.id] = out
	return out
}
