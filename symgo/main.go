package main

import (
	"flag"
	"fmt"
	"os"
	"runtime"
	"runtime/pprof"
	"strconv"
)

func runtimeStack(buf []byte) int { return runtime.Stack(buf, false) }

func main() {
	if len(os.Args) < 2 {
		fmt.Println("usage: symgo check -prop <id> -tier quick|thorough [-entry E]")
		os.Exit(2)
	}
	switch os.Args[1] {
	case "check":
		fs := flag.NewFlagSet("check", flag.ExitOnError)
		prop := fs.String("prop", "", "property id")
		tier := fs.String("tier", "quick", "quick|thorough")
		entry := fs.String("entry", "", "run only this harness entry")
		fs.Parse(os.Args[2:])
		seed := int64(1)
		if s := os.Getenv("VERIF_SEED"); s != "" {
			if v, err := strconv.ParseInt(s, 10, 64); err == nil {
				seed = v
			}
		}
		if t := os.Getenv("VERIF_TIER"); t != "" && *tier == "" {
			*tier = t
		}
		if pf := os.Getenv("SYMGO_PROF"); pf != "" {
			f, _ := os.Create(pf)
			pprof.StartCPUProfile(f)
			code := runCheck(*prop, *tier, seed, *entry)
			pprof.StopCPUProfile()
			f.Close()
			os.Exit(code)
		}
		os.Exit(runCheck(*prop, *tier, seed, *entry))
	default:
		fmt.Println("unknown command")
		os.Exit(2)
	}
}
