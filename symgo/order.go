package main

// A sound pre-check for comparison atoms: the signed (and, separately, unsigned) order on
// bit-vectors is a total order, so facts a<b, a<=b, a==b already on the path imply others by
// transitivity. Anything this closure cannot derive goes to the solver; what it derives is
// counted as "decided by rewriting".

type ordEdge struct {
	to     int
	strict bool
}

type ordGraph struct {
	signed bool
	adj    map[int][]ordEdge
	consts map[int]*Term // constant nodes present in the graph
	terms  map[int]*Term
}

func newOrdGraph(signed bool) *ordGraph {
	return &ordGraph{signed: signed, adj: map[int][]ordEdge{}, consts: map[int]*Term{}, terms: map[int]*Term{}}
}

func (g *ordGraph) node(t *Term) {
	if _, ok := g.terms[t.id]; ok {
		return
	}
	g.terms[t.id] = t
	if t.IsConst() {
		g.consts[t.id] = t
	}
}

func (g *ordGraph) add(a, b *Term, strict bool) {
	g.node(a)
	g.node(b)
	g.adj[a.id] = append(g.adj[a.id], ordEdge{b.id, strict})
}

func (g *ordGraph) cless(a, b *Term) (le, lt bool) {
	if g.signed {
		x, y := sext(a.c, a.sort.W), sext(b.c, b.sort.W)
		return x <= y, x < y
	}
	return a.c <= b.c, a.c < b.c
}

// reach reports whether a <= b (or a < b when strict) follows from the recorded facts.
func (g *ordGraph) reach(a, b *Term, strict bool) bool {
	if a == b {
		return !strict
	}
	if a.IsConst() && b.IsConst() {
		le, lt := g.cless(a, b)
		if strict {
			return lt
		}
		return le
	}
	if _, ok := g.terms[a.id]; !ok && !a.IsConst() {
		return false
	}
	if _, ok := g.terms[b.id]; !ok && !b.IsConst() {
		return false
	}
	// state: (node, sawStrict)
	type st struct {
		id int
		s  bool
	}
	seen := map[st]bool{}
	var stack []st
	push := func(id int, s bool) {
		k := st{id, s}
		if !seen[k] {
			seen[k] = true
			stack = append(stack, k)
		}
	}
	push(a.id, false)
	var aConst *Term
	if a.IsConst() {
		aConst = a
	}
	_ = aConst
	for len(stack) > 0 {
		cur := stack[len(stack)-1]
		stack = stack[:len(stack)-1]
		if cur.id == b.id && (cur.s || !strict) {
			return true
		}
		for _, e := range g.adj[cur.id] {
			push(e.to, cur.s || e.strict)
		}
		// constant hops: from a constant to any larger constant in the graph (or to b if b is a constant)
		var ct *Term
		if t, ok := g.consts[cur.id]; ok {
			ct = t
		} else if cur.id == a.id && a.IsConst() {
			ct = a
		}
		if ct != nil {
			for id, c2 := range g.consts {
				if id == cur.id {
					continue
				}
				if le, lt := g.cless(ct, c2); le {
					push(id, cur.s || lt)
				}
			}
			if b.IsConst() {
				if le, lt := g.cless(ct, b); le && (cur.s || lt || !strict) {
					return true
				}
			}
		}
	}
	return false
}

// ordKnown tries to decide a comparison/equality atom from the order closure.
func (r *Run) ordKnown(c *Term) (bool, bool) {
	switch c.op {
	case OpSlt, OpSle, OpUlt, OpUle:
		g := r.ordS
		if c.op == OpUlt || c.op == OpUle {
			g = r.ordU
		}
		a, b := c.args[0], c.args[1]
		strict := c.op == OpSlt || c.op == OpUlt
		if g.reach(a, b, strict) {
			return true, true
		}
		// negation: !(a < b) is b <= a ; !(a <= b) is b < a
		if g.reach(b, a, !strict) {
			return false, true
		}
	case OpEq:
		a, b := c.args[0], c.args[1]
		if a.sort.K != SBV {
			return false, false
		}
		for _, g := range []*ordGraph{r.ordS, r.ordU} {
			if g.reach(a, b, false) && g.reach(b, a, false) {
				return true, true
			}
			if g.reach(a, b, true) || g.reach(b, a, true) {
				return false, true
			}
		}
	}
	return false, false
}

// ordNote records a comparison fact.
func (r *Run) ordNote(c *Term, val bool) {
	switch c.op {
	case OpSlt, OpSle, OpUlt, OpUle:
		g := r.ordS
		if c.op == OpUlt || c.op == OpUle {
			g = r.ordU
		}
		a, b := c.args[0], c.args[1]
		strict := c.op == OpSlt || c.op == OpUlt
		if val {
			g.add(a, b, strict)
		} else {
			g.add(b, a, !strict)
		}
	case OpEq:
		a, b := c.args[0], c.args[1]
		if a.sort.K != SBV || !val {
			return
		}
		for _, g := range []*ordGraph{r.ordS, r.ordU} {
			g.add(a, b, false)
			g.add(b, a, false)
		}
	}
}

// ---- a complete decision procedure for pure order constraints ----
//
// While every literal of the path condition is a comparison (signed or unsigned, not both),
// equality or disequality between plain symbols of one bit-vector sort (no constants, no
// arithmetic), satisfiability of "path condition and one more such literal" is decided
// here, without the solver: the constraints are satisfiable iff the <=-graph has no cycle
// through a strict edge and no disequality joins two symbols of one strongly connected
// component (otherwise number the components in topological order: all <=, <, = and != hold;
// 2^w values suffice because there are far fewer symbols). As soon as a literal of another
// shape enters the path condition the procedure declares itself not applicable for the rest
// of the path and the solver decides as before. SYMGO_ORDCHECK=1 re-decides every answer
// with the solver and aborts on disagreement.

type ordLit struct {
	a, b *Term
	kind int // 0: a <= b, 1: a < b, 2: a == b, 3: a != b
}

type pureOrder struct {
	off    bool
	sign   int // 0 unknown, 1 signed, 2 unsigned
	lits   []ordLit
	idx    map[int]int
	nnodes int
}

func plainSym(t *Term) bool { return t.op == OpSym && t.sort.K == SBV && t.sort.W >= 16 }

// litOf translates a literal (atom or negated atom) into pure-order form.
func (p *pureOrder) litOf(c *Term, val bool) (ordLit, bool) {
	for c.op == OpBNot {
		c, val = c.args[0], !val
	}
	switch c.op {
	case OpSlt, OpSle, OpUlt, OpUle:
		sg := 1
		if c.op == OpUlt || c.op == OpUle {
			sg = 2
		}
		if p.sign != 0 && p.sign != sg {
			return ordLit{}, false
		}
		a, b := c.args[0], c.args[1]
		if !plainSym(a) || !plainSym(b) {
			return ordLit{}, false
		}
		p.sign = sg
		strict := c.op == OpSlt || c.op == OpUlt
		if !val { // !(a < b) is b <= a ; !(a <= b) is b < a
			a, b, strict = b, a, !strict
		}
		k := 0
		if strict {
			k = 1
		}
		return ordLit{a, b, k}, true
	case OpEq:
		a, b := c.args[0], c.args[1]
		if !plainSym(a) || !plainSym(b) {
			return ordLit{}, false
		}
		if val {
			return ordLit{a, b, 2}, true
		}
		return ordLit{a, b, 3}, true
	}
	return ordLit{}, false
}

// add records a literal of the path condition; a conjunction is split, anything that is not a
// pure order literal switches the procedure off.
func (p *pureOrder) add(c *Term, val bool) {
	if p.off {
		return
	}
	for c.op == OpBNot {
		c, val = c.args[0], !val
	}
	if c.IsConst() {
		return
	}
	if val && c.op == OpBAnd {
		p.add(c.args[0], true)
		p.add(c.args[1], true)
		return
	}
	if !val && c.op == OpBOr {
		p.add(c.args[0], false)
		p.add(c.args[1], false)
		return
	}
	l, ok := p.litOf(c, val)
	if !ok {
		p.off = true
		return
	}
	p.lits = append(p.lits, l)
}

// sat decides "path condition and (c == val)"; ok is false when the procedure does not apply.
func (p *pureOrder) sat(c *Term, val bool) (sat bool, ok bool) {
	if p.off {
		return false, false
	}
	sign := p.sign
	l, lok := p.litOf(c, val)
	if !lok {
		p.sign = sign
		return false, false
	}
	lits := append(p.lits[:len(p.lits):len(p.lits)], l)
	p.sign = sign // a query does not commit the signedness
	idx := map[int]int{}
	node := func(t *Term) int {
		if i, ok := idx[t.id]; ok {
			return i
		}
		idx[t.id] = len(idx)
		return len(idx) - 1
	}
	for _, x := range lits {
		node(x.a)
		node(x.b)
	}
	n := len(idx)
	if n > 120 {
		return false, false
	}
	le := make([]bool, n*n)
	lt := make([]bool, n*n)
	for i := 0; i < n; i++ {
		le[i*n+i] = true
	}
	for _, x := range lits {
		i, j := idx[x.a.id], idx[x.b.id]
		switch x.kind {
		case 0:
			le[i*n+j] = true
		case 1:
			le[i*n+j] = true
			lt[i*n+j] = true
		case 2:
			le[i*n+j] = true
			le[j*n+i] = true
		}
	}
	for k := 0; k < n; k++ {
		for i := 0; i < n; i++ {
			if !le[i*n+k] {
				continue
			}
			for j := 0; j < n; j++ {
				if le[k*n+j] {
					le[i*n+j] = true
					if lt[i*n+k] || lt[k*n+j] {
						lt[i*n+j] = true
					}
				}
			}
		}
	}
	for i := 0; i < n; i++ {
		if lt[i*n+i] {
			return false, true
		}
	}
	for _, x := range lits {
		if x.kind == 3 {
			i, j := idx[x.a.id], idx[x.b.id]
			if i == j || (le[i*n+j] && le[j*n+i]) {
				return false, true
			}
		}
	}
	return true, true
}
