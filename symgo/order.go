package main

// A sound pre-check for comparison atoms: the signed (and, separately, unsigned) order on
// bit-vectors is a total order, so facts a<b, a<=b, a==b already on the path imply others by
// transitivity. Anything this closure cannot derive goes to the solver; what it derives is
// counted as "decided by rewriting".

type ordEdge struct {
	to     int
	strict bool
}

type ordGraph struct {
	signed bool
	adj    map[int][]ordEdge
	consts map[int]*Term // constant nodes present in the graph
	terms  map[int]*Term
}

func newOrdGraph(signed bool) *ordGraph {
	return &ordGraph{signed: signed, adj: map[int][]ordEdge{}, consts: map[int]*Term{}, terms: map[int]*Term{}}
}

func (g *ordGraph) node(t *Term) {
	if _, ok := g.terms[t.id]; ok {
		return
	}
	g.terms[t.id] = t
	if t.IsConst() {
		g.consts[t.id] = t
	}
}

func (g *ordGraph) add(a, b *Term, strict bool) {
	g.node(a)
	g.node(b)
	g.adj[a.id] = append(g.adj[a.id], ordEdge{b.id, strict})
}

func (g *ordGraph) cless(a, b *Term) (le, lt bool) {
	if g.signed {
		x, y := sext(a.c, a.sort.W), sext(b.c, b.sort.W)
		return x <= y, x < y
	}
	return a.c <= b.c, a.c < b.c
}

// reach reports whether a <= b (or a < b when strict) follows from the recorded facts.
func (g *ordGraph) reach(a, b *Term, strict bool) bool {
	if a == b {
		return !strict
	}
	if a.IsConst() && b.IsConst() {
		le, lt := g.cless(a, b)
		if strict {
			return lt
		}
		return le
	}
	if _, ok := g.terms[a.id]; !ok && !a.IsConst() {
		return false
	}
	if _, ok := g.terms[b.id]; !ok && !b.IsConst() {
		return false
	}
	// state: (node, sawStrict)
	type st struct {
		id int
		s  bool
	}
	seen := map[st]bool{}
	var stack []st
	push := func(id int, s bool) {
		k := st{id, s}
		if !seen[k] {
			seen[k] = true
			stack = append(stack, k)
		}
	}
	push(a.id, false)
	var aConst *Term
	if a.IsConst() {
		aConst = a
	}
	_ = aConst
	for len(stack) > 0 {
		cur := stack[len(stack)-1]
		stack = stack[:len(stack)-1]
		if cur.id == b.id && (cur.s || !strict) {
			return true
		}
		for _, e := range g.adj[cur.id] {
			push(e.to, cur.s || e.strict)
		}
		// constant hops: from a constant to any larger constant in the graph (or to b if b is a constant)
		var ct *Term
		if t, ok := g.consts[cur.id]; ok {
			ct = t
		} else if cur.id == a.id && a.IsConst() {
			ct = a
		}
		if ct != nil {
			for id, c2 := range g.consts {
				if id == cur.id {
					continue
				}
				if le, lt := g.cless(ct, c2); le {
					push(id, cur.s || lt)
				}
			}
			if b.IsConst() {
				if le, lt := g.cless(ct, b); le && (cur.s || lt || !strict) {
					return true
				}
			}
		}
	}
	return false
}

// ordKnown tries to decide a comparison/equality atom from the order closure.
func (r *Run) ordKnown(c *Term) (bool, bool) {
	switch c.op {
	case OpSlt, OpSle, OpUlt, OpUle:
		g := r.ordS
		if c.op == OpUlt || c.op == OpUle {
			g = r.ordU
		}
		a, b := c.args[0], c.args[1]
		strict := c.op == OpSlt || c.op == OpUlt
		if g.reach(a, b, strict) {
			return true, true
		}
		// negation: !(a < b) is b <= a ; !(a <= b) is b < a
		if g.reach(b, a, !strict) {
			return false, true
		}
	case OpEq:
		a, b := c.args[0], c.args[1]
		if a.sort.K != SBV {
			return false, false
		}
		for _, g := range []*ordGraph{r.ordS, r.ordU} {
			if g.reach(a, b, false) && g.reach(b, a, false) {
				return true, true
			}
			if g.reach(a, b, true) || g.reach(b, a, true) {
				return false, true
			}
		}
	}
	return false, false
}

// ordNote records a comparison fact.
func (r *Run) ordNote(c *Term, val bool) {
	switch c.op {
	case OpSlt, OpSle, OpUlt, OpUle:
		g := r.ordS
		if c.op == OpUlt || c.op == OpUle {
			g = r.ordU
		}
		a, b := c.args[0], c.args[1]
		strict := c.op == OpSlt || c.op == OpUlt
		if val {
			g.add(a, b, strict)
		} else {
			g.add(b, a, !strict)
		}
	case OpEq:
		a, b := c.args[0], c.args[1]
		if a.sort.K != SBV || !val {
			return
		}
		for _, g := range []*ordGraph{r.ordS, r.ordU} {
			g.add(a, b, false)
			g.add(b, a, false)
		}
	}
}
