package main

// A small model of package reflect, enough for the way library code typically peeks at a
// value: ValueOf, Elem, IsZero, IsNil, IsValid, Kind, Len, Int, Uint, Bool, String, Interface,
// CanAddr/CanSet/Set on an addressable value, and DeepEqual on comparable data. A reflect.Value
// is carried as a reflectVal (static type + engine value); reflect.Type values are not
// modelled, a call that needs one ends the path as an engine error (inconclusive).

import (
	"fmt"
	"go/types"
)

func (r *Run) reflArg(c *intrCtx, i int) reflectVal {
	switch x := c.args[i].(type) {
	case reflectVal:
		return x
	case StructVal: // the zero reflect.Value
		return reflectVal{}
	}
	r.fail(fmt.Sprintf("reflect: receiver is %T", c.args[i]))
	return reflectVal{}
}

// reflect.Kind numbering
func reflKind(t types.Type) int64 {
	switch u := under(t).(type) {
	case *types.Basic:
		switch u.Kind() {
		case types.Bool:
			return 1
		case types.Int:
			return 2
		case types.Int8:
			return 3
		case types.Int16:
			return 4
		case types.Int32:
			return 5
		case types.Int64:
			return 6
		case types.Uint:
			return 7
		case types.Uint8:
			return 8
		case types.Uint16:
			return 9
		case types.Uint32:
			return 10
		case types.Uint64:
			return 11
		case types.Uintptr:
			return 12
		case types.Float32:
			return 13
		case types.Float64:
			return 14
		case types.Complex64:
			return 15
		case types.Complex128:
			return 16
		case types.String:
			return 24
		case types.UnsafePointer:
			return 26
		}
	case *types.Array:
		return 17
	case *types.Chan:
		return 18
	case *types.Signature:
		return 19
	case *types.Interface:
		return 20
	case *types.Map:
		return 21
	case *types.Pointer:
		return 22
	case *types.Slice:
		return 23
	case *types.Struct:
		return 25
	}
	return 0
}

func (r *Run) reflIsZero(t types.Type, v Value) *Term {
	tt := r.tt
	switch u := under(t).(type) {
	case *types.Struct:
		sv := v.(StructVal)
		out := tt.True
		for i := range sv.f {
			out = tt.And(out, r.reflIsZero(u.Field(i).Type(), sv.f[i]))
		}
		return out
	case *types.Array:
		av := v.(ArrayVal)
		out := tt.True
		for i := range av.e {
			out = tt.And(out, r.reflIsZero(u.Elem(), av.e[i]))
		}
		return out
	case *types.Basic:
		if tv, ok := v.(*Term); ok && tv.sort.K == SFP {
			// IsZero of a float looks at the bits: -0.0 is not zero; the engine keeps floats as
			// bit-vector symbols wrapped by to_fp, compare the bits
			if tv.op == OpFFromBits {
				return tt.Eq(tv.args[0], tt.Const(tv.args[0].sort, 0))
			}
			r.fail("reflect: IsZero of a computed float")
		}
	case *types.Slice, *types.Map, *types.Chan, *types.Signature, *types.Pointer, *types.Interface:
		return tt.Bool(isNilValue(v))
	}
	return r.valueEq(v, r.zero(t))
}

func init() {
	reg := func(name string, f intrFn) { reflStubs[name] = f }
	reg("reflect.ValueOf", func(c *intrCtx) (invResult, Value) {
		iv, ok := c.args[0].(Iface)
		if !ok || iv.typ == nil {
			return invDone, reflectVal{}
		}
		return invDone, reflectVal{v: iv.val, typ: iv.typ}
	})
	reg("(reflect.Value).IsValid", func(c *intrCtx) (invResult, Value) {
		return invDone, c.r.tt.Bool(c.r.reflArg(c, 0).typ != nil)
	})
	reg("(reflect.Value).Kind", func(c *intrCtx) (invResult, Value) {
		rv := c.r.reflArg(c, 0)
		if rv.typ == nil {
			return invDone, c.r.tt.Int(64, 0)
		}
		return invDone, c.r.tt.Int(64, reflKind(rv.typ))
	})
	reg("(reflect.Value).Elem", func(c *intrCtx) (invResult, Value) {
		r := c.r
		rv := r.reflArg(c, 0)
		if rv.typ == nil {
			r.goPanic("reflect: call of reflect.Value.Elem on zero Value")
		}
		switch u := under(rv.typ).(type) {
		case *types.Pointer:
			p := rv.v.(Ptr)
			if p.s == nil {
				return invDone, reflectVal{}
			}
			return invDone, reflectVal{v: r.load(p.s), typ: u.Elem(), addr: p.s}
		case *types.Interface:
			iv := rv.v.(Iface)
			if iv.typ == nil {
				return invDone, reflectVal{}
			}
			return invDone, reflectVal{v: iv.val, typ: iv.typ}
		}
		r.goPanic("reflect: call of reflect.Value.Elem on " + rv.typ.String() + " Value")
		return invDone, nil
	})
	reg("(reflect.Value).IsZero", func(c *intrCtx) (invResult, Value) {
		r := c.r
		rv := r.reflArg(c, 0)
		if rv.typ == nil {
			r.goPanic("reflect: call of reflect.Value.IsZero on zero Value")
		}
		v := rv.v
		if rv.addr != nil {
			v = r.load(rv.addr)
		}
		return invDone, r.reflIsZero(rv.typ, v)
	})
	reg("(reflect.Value).IsNil", func(c *intrCtx) (invResult, Value) {
		r := c.r
		rv := r.reflArg(c, 0)
		if rv.typ == nil {
			r.goPanic("reflect: call of reflect.Value.IsNil on zero Value")
		}
		switch under(rv.typ).(type) {
		case *types.Slice, *types.Map, *types.Chan, *types.Signature, *types.Pointer, *types.Interface:
			return invDone, r.tt.Bool(isNilValue(rv.v))
		}
		if b, ok := under(rv.typ).(*types.Basic); ok && b.Kind() == types.UnsafePointer {
			return invDone, r.tt.Bool(isNilValue(rv.v))
		}
		r.goPanic("reflect: call of reflect.Value.IsNil on " + rv.typ.String() + " Value")
		return invDone, nil
	})
	reg("(reflect.Value).Len", func(c *intrCtx) (invResult, Value) {
		r := c.r
		rv := r.reflArg(c, 0)
		switch x := rv.v.(type) {
		case SliceVal:
			return invDone, r.tt.Int(64, int64(x.len))
		case ArrayVal:
			return invDone, r.tt.Int(64, int64(len(x.e)))
		case StrVal:
			return invDone, r.tt.Int(64, int64(len(x.s)))
		case *MapObj:
			if x == nil {
				return invDone, r.tt.Int(64, 0)
			}
			return invDone, r.tt.Int(64, int64(len(x.entries)))
		}
		r.fail("reflect: Len of " + fmt.Sprintf("%T", rv.v))
		return invDone, nil
	})
	reg("(reflect.Value).Interface", func(c *intrCtx) (invResult, Value) {
		r := c.r
		rv := r.reflArg(c, 0)
		if rv.typ == nil {
			r.goPanic("reflect: call of reflect.Value.Interface on zero Value")
		}
		v := rv.v
		if rv.addr != nil {
			v = r.load(rv.addr)
		}
		if _, isIface := under(rv.typ).(*types.Interface); isIface {
			return invDone, v
		}
		return invDone, Iface{typ: rv.typ, val: v}
	})
	reg("(reflect.Value).Int", func(c *intrCtx) (invResult, Value) {
		r := c.r
		rv := r.reflArg(c, 0)
		t, ok := rv.v.(*Term)
		if !ok || t.sort.K != SBV || !isSigned(rv.typ) {
			r.goPanic("reflect: call of reflect.Value.Int on non-int Value")
		}
		return invDone, r.tt.SExt(t, 64)
	})
	reg("(reflect.Value).Uint", func(c *intrCtx) (invResult, Value) {
		r := c.r
		rv := r.reflArg(c, 0)
		t, ok := rv.v.(*Term)
		if !ok || t.sort.K != SBV || isSigned(rv.typ) {
			r.goPanic("reflect: call of reflect.Value.Uint on non-uint Value")
		}
		return invDone, r.tt.ZExt(t, 64)
	})
	reg("(reflect.Value).Bool", func(c *intrCtx) (invResult, Value) {
		r := c.r
		rv := r.reflArg(c, 0)
		t, ok := rv.v.(*Term)
		if !ok || t.sort.K != SBool {
			r.goPanic("reflect: call of reflect.Value.Bool on non-bool Value")
		}
		return invDone, t
	})
	reg("(reflect.Value).CanAddr", func(c *intrCtx) (invResult, Value) {
		return invDone, c.r.tt.Bool(c.r.reflArg(c, 0).addr != nil)
	})
	reg("(reflect.Value).CanSet", func(c *intrCtx) (invResult, Value) {
		return invDone, c.r.tt.Bool(c.r.reflArg(c, 0).addr != nil)
	})
	reg("(reflect.Value).Set", func(c *intrCtx) (invResult, Value) {
		r := c.r
		rv, x := r.reflArg(c, 0), r.reflArg(c, 1)
		if rv.addr == nil {
			r.goPanic("reflect: reflect.Value.Set using unaddressable value")
		}
		if x.typ == nil || !types.Identical(x.typ, rv.typ) {
			r.goPanic("reflect.Set: value is not assignable")
		}
		r.store(rv.addr, x.v)
		return invDone, nil
	})
	reg("reflect.DeepEqual", func(c *intrCtx) (invResult, Value) {
		r := c.r
		a, _ := c.args[0].(Iface)
		b, _ := c.args[1].(Iface)
		return invDone, r.deepEqual(a, b, 0)
	})
}

var reflStubs = map[string]intrFn{}

// deepEqual on interface values: identical dynamic types and (recursively) equal contents;
// slices are compared element-wise (lengths are concrete in the engine).
func (r *Run) deepEqual(a, b Iface, depth int) *Term {
	if a.typ == nil || b.typ == nil {
		return r.tt.Bool(a.typ == nil && b.typ == nil)
	}
	if !types.Identical(a.typ, b.typ) {
		return r.tt.False
	}
	return r.deepEqVal(a.typ, a.val, b.val, depth)
}

func (r *Run) deepEqVal(t types.Type, a, b Value, depth int) *Term {
	tt := r.tt
	if depth > 32 {
		r.fail("reflect.DeepEqual: nesting too deep")
	}
	switch u := under(t).(type) {
	case *types.Slice:
		x, y := a.(SliceVal), b.(SliceVal)
		if (x.arr == nil) != (y.arr == nil) {
			return tt.False
		}
		if x.len != y.len {
			return tt.False
		}
		out := tt.True
		for i := 0; i < x.len; i++ {
			out = tt.And(out, r.deepEqVal(u.Elem(), r.load(x.at(i)), r.load(y.at(i)), depth+1))
		}
		return out
	case *types.Array:
		x, y := a.(ArrayVal), b.(ArrayVal)
		out := tt.True
		for i := range x.e {
			out = tt.And(out, r.deepEqVal(u.Elem(), x.e[i], y.e[i], depth+1))
		}
		return out
	case *types.Struct:
		x, y := a.(StructVal), b.(StructVal)
		out := tt.True
		for i := range x.f {
			out = tt.And(out, r.deepEqVal(u.Field(i).Type(), x.f[i], y.f[i], depth+1))
		}
		return out
	case *types.Pointer:
		x, y := a.(Ptr), b.(Ptr)
		if x.s == nil || y.s == nil {
			return tt.Bool(x.s == nil && y.s == nil)
		}
		if x.s == y.s {
			return tt.True
		}
		return r.deepEqVal(u.Elem(), r.load(x.s), r.load(y.s), depth+1)
	case *types.Interface:
		return r.deepEqual(a.(Iface), b.(Iface), depth+1)
	case *types.Map:
		r.fail("reflect.DeepEqual on maps is not modelled")
	}
	return r.valueEq(a, b)
}
