package main

// Engine-implemented functions: the harness API (v*), and the environment stubs
// (sync, sync/atomic, time, fmt, strings.Builder, reflect-based sort entry points).

import (
	"fmt"
	"go/types"
	"math"
	"strings"

	"golang.org/x/tools/go/ssa"
)

func (w *Worker) intrinsic(fn *ssa.Function) intrFn {
	if h, ok := w.intrCache[fn]; ok {
		return h
	}
	h := w.lookupIntrinsic(fn)
	w.intrCache[fn] = h
	return h
}

func (w *Worker) lookupIntrinsic(fn *ssa.Function) intrFn {
	o := fn
	if fn.Origin() != nil {
		o = fn.Origin()
	}
	if o.Pkg != nil && o.Pkg == w.eng.hpkg && strings.HasPrefix(o.Name(), "v") {
		if h, ok := harnessAPI[o.Name()]; ok {
			return h
		}
	}
	name := o.String()
	if h, ok := stubs[name]; ok {
		return h
	}
	if h, ok := reflStubs[name]; ok {
		return h
	}
	if h, ok := fmtStubs[name]; ok {
		return h
	}
	if o.Pkg != nil {
		switch o.Pkg.Pkg.Path() {
		case "fmt":
			return stubOpaque
		case "strings":
			if strings.HasPrefix(name, "(*strings.Builder).") {
				return stubOpaque
			}
		}
	}
	return nil
}

func cstr(c *intrCtx, i int) string {
	s, ok := c.args[i].(StrVal)
	if !ok {
		c.r.fail("harness API: name/label argument must be a constant string")
	}
	return s.s
}

func cint(c *intrCtx, i int) int64 {
	t, ok := c.args[i].(*Term)
	if !ok || !t.IsConst() {
		c.r.fail("harness API: argument must be a concrete integer")
	}
	return sext(t.c, t.sort.W)
}

// clockReading: the next reading of the monotonic clock, in ns - arbitrary, not before the last one.
func (r *Run) clockReading() *Term {
	if tick := r.eng.cfg.ClockTickNs; tick > 0 {
		// (scale runs: a concrete clock that advances by a fixed amount per reading)
		r.clockN++
		return r.tt.Int(64, r.clockN*tick)
	}
	m := r.freshInput("time.Now", BV(64), "int64")
	lo := r.lastNow
	if lo == nil {
		lo = r.tt.Int(64, 0)
	}
	r.assume(r.tt.CmpBV(OpSle, lo, m))
	r.assume(r.tt.CmpBV(OpSle, m, r.tt.Int(64, 1<<61)))
	r.lastNow = m
	return m
}

func (r *Run) freshInput(name string, s Sort, kind string) *Term {
	occ := r.inputOcc[name]
	r.inputOcc[name] = occ + 1
	full := fmt.Sprintf("%s#%d", name, occ)
	t := r.tt.Sym(s, full)
	sym := t
	if s.K == SFP {
		sym = t.args[0]
	}
	r.inputs = append(r.inputs, InputRec{Name: full, Sort: s, Sym: sym, Kind: kind})
	return t
}

func vInput(s Sort, kind string) intrFn {
	return func(c *intrCtx) (invResult, Value) {
		return invDone, c.r.freshInput(cstr(c, 0), s, kind)
	}
}

var harnessAPI map[string]intrFn
var stubs map[string]intrFn

func init() {
	harnessAPI = map[string]intrFn{
		"vInt": vInput(BV(64), "int"), "vInt8": vInput(BV(8), "int8"), "vInt16": vInput(BV(16), "int16"),
		"vInt32": vInput(BV(32), "int32"), "vInt64": vInput(BV(64), "int64"),
		"vUint": vInput(BV(64), "uint"), "vUint8": vInput(BV(8), "uint8"), "vUint16": vInput(BV(16), "uint16"),
		"vUint32": vInput(BV(32), "uint32"), "vUint64": vInput(BV(64), "uint64"), "vUintptr": vInput(BV(64), "uintptr"),
		"vBool": vInput(BoolSort, "bool"), "vFloat32": vInput(FP(32), "float32"), "vFloat64": vInput(FP(64), "float64"),
		"vRange": func(c *intrCtx) (invResult, Value) {
			r := c.r
			lo, hi := cint(c, 1), cint(c, 2)
			if lo > hi {
				r.abort(OInfeasible, "")
			}
			if lo == hi {
				return invDone, r.tt.Int(64, lo)
			}
			x := r.freshInput(cstr(c, 0), BV(64), "int")
			r.assume(r.tt.And(r.tt.CmpBV(OpSle, r.tt.Int(64, lo), x), r.tt.CmpBV(OpSle, x, r.tt.Int(64, hi))))
			return invDone, x
		},
		"vChoose": func(c *intrCtx) (invResult, Value) {
			r := c.r
			name := cstr(c, 0)
			n := int(cint(c, 1))
			if n <= 0 {
				r.abort(OInfeasible, "")
			}
			k := r.choose(n, "vChoose:"+name)
			occ := r.inputOcc["choose:"+name]
			r.inputOcc["choose:"+name] = occ + 1
			r.chooses[fmt.Sprintf("%s#%d", name, occ)] = int64(k)
			return invDone, r.tt.Int(64, int64(k))
		},
		"vParam": func(c *intrCtx) (invResult, Value) {
			name := cstr(c, 0)
			v, ok := c.r.eng.cfg.Params[name]
			if !ok {
				c.r.fail("vParam: no value for parameter " + name)
			}
			return invDone, c.r.tt.Int(64, v)
		},
		"vAssume": func(c *intrCtx) (invResult, Value) {
			r := c.r
			cond := c.args[0].(*Term)
			if v, ok := r.known(cond); ok {
				if !v {
					r.abort(OInfeasible, "")
				}
				return invDone, nil
			}
			if len(r.log) >= len(r.prefix) {
				if r.feasible(cond) == Unsat {
					r.abort(OInfeasible, "")
				}
			}
			r.assume(cond)
			return invDone, nil
		},
		"vAssert": func(c *intrCtx) (invResult, Value) {
			c.r.vassert(c.args[0].(*Term), cstr(c, 1))
			return invDone, nil
		},
		"vCover": func(c *intrCtx) (invResult, Value) {
			c.r.covers[cstr(c, 0)] = true
			return invDone, nil
		},
		"vCut": func(c *intrCtx) (invResult, Value) {
			c.r.cuts[cstr(c, 0)] = true
			c.r.abort(OCut, cstr(c, 0))
			return invDone, nil
		},
		"vIte": func(c *intrCtx) (invResult, Value) {
			return invDone, c.r.tt.Ite(c.args[0].(*Term), c.args[1].(*Term), c.args[2].(*Term))
		},
		"vIteB": func(c *intrCtx) (invResult, Value) {
			return invDone, c.r.tt.Ite(c.args[0].(*Term), c.args[1].(*Term), c.args[2].(*Term))
		},
		"vAnd": func(c *intrCtx) (invResult, Value) {
			return invDone, c.r.tt.And(c.args[0].(*Term), c.args[1].(*Term))
		},
		"vOr": func(c *intrCtx) (invResult, Value) {
			return invDone, c.r.tt.Or(c.args[0].(*Term), c.args[1].(*Term))
		},
		"vNot": func(c *intrCtx) (invResult, Value) { return invDone, c.r.tt.Not(c.args[0].(*Term)) },
		"vImplies": func(c *intrCtx) (invResult, Value) {
			return invDone, c.r.tt.Or(c.r.tt.Not(c.args[0].(*Term)), c.args[1].(*Term))
		},
		"vB2I": func(c *intrCtx) (invResult, Value) {
			return invDone, c.r.tt.Ite(c.args[0].(*Term), c.r.tt.Int(64, 1), c.r.tt.Int(64, 0))
		},
		"vB2U8": func(c *intrCtx) (invResult, Value) {
			return invDone, c.r.tt.Ite(c.args[0].(*Term), c.r.tt.Int(8, 1), c.r.tt.Int(8, 0))
		},
		"vUF1": func(c *intrCtx) (invResult, Value) {
			u := c.r.tt.UF(cstr(c, 0), BV(64), c.args[1].(*Term))
			c.r.noteUF(u)
			return invDone, u
		},
		"vUF2": func(c *intrCtx) (invResult, Value) {
			u := c.r.tt.UF(cstr(c, 0), BV(64), c.args[1].(*Term), c.args[2].(*Term))
			c.r.noteUF(u)
			return invDone, u
		},
		"vPred1": func(c *intrCtx) (invResult, Value) {
			u := c.r.tt.UF(cstr(c, 0), BoolSort, c.args[1].(*Term))
			c.r.noteUF(u)
			return invDone, u
		},
		"vPred2": func(c *intrCtx) (invResult, Value) {
			u := c.r.tt.UF(cstr(c, 0), BoolSort, c.args[1].(*Term), c.args[2].(*Term))
			c.r.noteUF(u)
			return invDone, u
		},
		"vSameF32": func(c *intrCtx) (invResult, Value) {
			return invDone, c.r.tt.Eq(c.args[0].(*Term), c.args[1].(*Term))
		},
		"vSameF64": func(c *intrCtx) (invResult, Value) {
			return invDone, c.r.tt.Eq(c.args[0].(*Term), c.args[1].(*Term))
		},
		"vPanics": func(c *intrCtx) (invResult, Value) {
			fv := c.args[0].(FuncVal)
			if fv.IsNil() {
				c.r.fail("vPanics(nil)")
			}
			nf := c.r.pushFrame(c.t, fv.fn, nil, fv.env, nil)
			nf.catch = true
			return invPushed, nil
		},
		"vObserve": func(c *intrCtx) (invResult, Value) {
			c.r.observes = append(c.r.observes, observeRec{cstr(c, 0), c.args[1]})
			return invDone, nil
		},
		"vGo": func(c *intrCtx) (invResult, Value) {
			c.r.spawnThread(c.t, c.args[0].(FuncVal), nil)
			return invDone, nil
		},
		"vWait": func(c *intrCtx) (invResult, Value) {
			r := c.r
			if r.multi {
				if !r.syncPoint(c.t, &pendOp{kind: "vwait", enabled: func() bool { return false }}) {
					return invYield, nil
				}
			}
			all := true
			for _, u := range r.threads {
				if u != c.t && !u.done {
					all = false
				}
			}
			// quiescence: every other goroutine has finished or is blocked; the observer is ordered
			// after everything they did so far
			for _, u := range r.threads {
				if u != c.t {
					join(c.t.vc, u.vc)
				}
			}
			return invDone, r.tt.Bool(all)
		},
		"vYield": func(c *intrCtx) (invResult, Value) {
			if !c.r.syncPoint(c.t, &pendOp{kind: "yield"}) {
				return invYield, nil
			}
			return invDone, nil
		},
		"vDepth": func(c *intrCtx) (invResult, Value) {
			// the number of active calls on the calling goroutine's stack
			return invDone, c.r.tt.Int(64, int64(len(c.t.frames)))
		},
		"vCondTicket": func(c *intrCtx) (invResult, Value) {
			cs := c.r.condOf(c.args[0])
			cs.next++
			cs.waiting = append(cs.waiting, cs.next)
			return invDone, c.r.tt.Int(64, int64(cs.next))
		},
		"vCondSleep": func(c *intrCtx) (invResult, Value) {
			r := c.r
			cs := r.condOf(c.args[0])
			ticket := int(cint(c, 1))
			if !r.syncPoint(c.t, &pendOp{kind: "Cond.Wait(asleep)", enabled: func() bool { return cs.notified[ticket] }}) {
				return invYield, nil
			}
			if !cs.notified[ticket] {
				r.crash(ODeadlock, "deadlock", "Cond.Wait blocks forever")
			}
			delete(cs.notified, ticket)
			r.acquire(c.t, cs.sync)
			return invDone, nil
		},
		"vStep": func(c *intrCtx) (invResult, Value) {
			c.r.clock++
			return invDone, c.r.tt.Int(64, int64(c.r.clock))
		},
		"vThreadDone": func(c *intrCtx) (invResult, Value) {
			// vThreadDone(i): has the i-th spawned thread finished (only meaningful after vWait)
			i := int(cint(c, 0))
			if i+1 >= len(c.r.threads) {
				return invDone, c.r.tt.False
			}
			return invDone, c.r.tt.Bool(c.r.threads[i+1].done)
		},
		"vMapOrder": func(c *intrCtx) (invResult, Value) {
			// vMapOrder(false): iterate maps in one fixed order (checking code whose verdict cannot
			// depend on the order); vMapOrder(true): explore orders as configured.
			t := c.args[0].(*Term)
			c.r.mapOrderOff = t.IsFalse()
			return invDone, nil
		},
		"vRegister": func(c *intrCtx) (invResult, Value) { return invDone, nil },
	}

	stubs = map[string]intrFn{}
	// ---- sync/atomic ----
	for _, ty := range []string{"Int32", "Uint32", "Int64", "Uint64", "Uintptr", "Pointer"} {
		ty := ty
		stubs["sync/atomic.Load"+ty] = func(c *intrCtx) (invResult, Value) {
			s := c.r.atomicSlot(c, 0)
			if s == nil {
				return invYield, nil
			}
			c.r.acquire(c.t, s.sync)
			return invDone, s.v
		}
		stubs["sync/atomic.Store"+ty] = func(c *intrCtx) (invResult, Value) {
			s := c.r.atomicSlot(c, 0)
			if s == nil {
				return invYield, nil
			}
			c.r.acquire(c.t, s.sync)
			c.r.release(c.t, &s.sync)
			s.v = c.args[1]
			return invDone, nil
		}
		stubs["sync/atomic.Swap"+ty] = func(c *intrCtx) (invResult, Value) {
			s := c.r.atomicSlot(c, 0)
			if s == nil {
				return invYield, nil
			}
			c.r.acquire(c.t, s.sync)
			c.r.release(c.t, &s.sync)
			old := s.v
			s.v = c.args[1]
			return invDone, old
		}
		stubs["sync/atomic.CompareAndSwap"+ty] = func(c *intrCtx) (invResult, Value) {
			s := c.r.atomicSlot(c, 0)
			if s == nil {
				return invYield, nil
			}
			r := c.r
			r.acquire(c.t, s.sync)
			eq := r.valueEq(s.v, c.args[1])
			if r.branch(eq) {
				r.release(c.t, &s.sync)
				s.v = c.args[2]
				return invDone, r.tt.True
			}
			return invDone, r.tt.False
		}
		if ty != "Pointer" {
			stubs["sync/atomic.Add"+ty] = func(c *intrCtx) (invResult, Value) {
				s := c.r.atomicSlot(c, 0)
				if s == nil {
					return invYield, nil
				}
				c.r.acquire(c.t, s.sync)
				c.r.release(c.t, &s.sync)
				nv := c.r.tt.BinBV(OpAdd, s.v.(*Term), c.args[1].(*Term))
				s.v = nv
				return invDone, nv
			}
		}
	}
	// ---- atomic.Value ----
	avSlot := func(c *intrCtx) *Slot {
		p := c.args[0].(Ptr)
		if p.s == nil {
			c.r.goPanic("nil pointer dereference (atomic.Value)")
		}
		if !c.r.syncPoint(c.t, &pendOp{kind: "atomic.Value"}) {
			return nil
		}
		return c.r.fieldByName(p.s, "v")
	}
	checkStore := func(c *intrCtx, s *Slot, nv Iface, what string) {
		if nv.typ == nil {
			c.r.goPanic("sync/atomic: " + what + " of nil value into Value")
		}
		if cur := s.v.(Iface); cur.typ != nil && !types.Identical(cur.typ, nv.typ) {
			c.r.goPanic("sync/atomic: " + what + " of inconsistently typed value into Value")
		}
	}
	stubs["(*sync/atomic.Value).Load"] = func(c *intrCtx) (invResult, Value) {
		s := avSlot(c)
		if s == nil {
			return invYield, nil
		}
		c.r.acquire(c.t, s.sync)
		return invDone, s.v
	}
	stubs["(*sync/atomic.Value).Store"] = func(c *intrCtx) (invResult, Value) {
		s := avSlot(c)
		if s == nil {
			return invYield, nil
		}
		checkStore(c, s, c.args[1].(Iface), "store")
		c.r.acquire(c.t, s.sync)
		c.r.release(c.t, &s.sync)
		s.v = c.args[1]
		return invDone, nil
	}
	stubs["(*sync/atomic.Value).Swap"] = func(c *intrCtx) (invResult, Value) {
		s := avSlot(c)
		if s == nil {
			return invYield, nil
		}
		checkStore(c, s, c.args[1].(Iface), "swap")
		c.r.acquire(c.t, s.sync)
		c.r.release(c.t, &s.sync)
		old := s.v
		s.v = c.args[1]
		return invDone, old
	}
	stubs["(*sync/atomic.Value).CompareAndSwap"] = func(c *intrCtx) (invResult, Value) {
		s := avSlot(c)
		if s == nil {
			return invYield, nil
		}
		r := c.r
		old, nv := c.args[1].(Iface), c.args[2].(Iface)
		if nv.typ == nil {
			r.goPanic("sync/atomic: compare and swap of nil value into Value")
		}
		if old.typ != nil && !types.Identical(old.typ, nv.typ) {
			r.goPanic("sync/atomic: compare and swap of inconsistently typed values")
		}
		cur := s.v.(Iface)
		r.acquire(c.t, s.sync)
		if cur.typ == nil {
			if old.typ != nil {
				return invDone, r.tt.False
			}
			r.release(c.t, &s.sync)
			s.v = nv
			return invDone, r.tt.True
		}
		if !types.Identical(cur.typ, nv.typ) {
			r.goPanic("sync/atomic: compare and swap of inconsistently typed value into Value")
		}
		if old.typ == nil {
			return invDone, r.tt.False
		}
		if r.branch(r.valueEq(cur, old)) {
			r.release(c.t, &s.sync)
			s.v = nv
			return invDone, r.tt.True
		}
		return invDone, r.tt.False
	}
	// ---- sync.Mutex / RWMutex ----
	stubs["(*sync.Mutex).Lock"] = func(c *intrCtx) (invResult, Value) {
		m := c.r.mutexOf(c, 0)
		if !c.r.syncPoint(c.t, &pendOp{kind: "Mutex.Lock", enabled: func() bool { return !m.locked }}) {
			return invYield, nil
		}
		if m.locked {
			c.r.crash(ODeadlock, "deadlock", "Mutex.Lock on a mutex already held with no other runnable thread")
		}
		m.locked = true
		c.r.acquire(c.t, m.sync)
		c.r.syncMirror(c, m)
		return invDone, nil
	}
	stubs["(*sync.Mutex).TryLock"] = func(c *intrCtx) (invResult, Value) {
		m := c.r.mutexOf(c, 0)
		if !c.r.syncPoint(c.t, &pendOp{kind: "Mutex.TryLock"}) {
			return invYield, nil
		}
		if m.locked {
			c.r.syncMirror(c, m)
			return invDone, c.r.tt.False
		}
		m.locked = true
		c.r.acquire(c.t, m.sync)
		c.r.syncMirror(c, m)
		return invDone, c.r.tt.True
	}
	stubs["(*sync.Mutex).Unlock"] = func(c *intrCtx) (invResult, Value) {
		m := c.r.mutexOf(c, 0)
		if !c.r.syncPoint(c.t, &pendOp{kind: "Mutex.Unlock"}) {
			return invYield, nil
		}
		if !m.locked {
			c.r.crash(OCrash, "panic", "fatal error: sync: unlock of unlocked mutex")
		}
		m.locked = false
		c.r.release(c.t, &m.sync)
		c.r.syncMirror(c, m)
		return invDone, nil
	}
	// sync.RWMutex gives writers preference: from the moment Lock is called (and no other writer
	// is ahead) new RLock calls block, also while the writer still waits for the active readers
	// to leave. Lock is therefore two operations: announce (m.writer = the caller), then acquire.
	stubs["(*sync.RWMutex).Lock"] = func(c *intrCtx) (invResult, Value) {
		m := c.r.mutexOf(c, 0)
		if m.writer != c.t {
			if !c.r.syncPoint(c.t, &pendOp{kind: "RWMutex.Lock(announce)", enabled: func() bool { return m.writer == nil }}) {
				return invYield, nil
			}
			if m.writer != nil {
				c.r.crash(ODeadlock, "deadlock", "RWMutex.Lock blocks forever")
			}
			m.writer = c.t
			if !m.locked && m.readers == 0 {
				// no reader to wait for: announcing and acquiring are adjacent steps of the caller
				// with no observable state in between - one operation
				m.locked = true
				c.r.acquire(c.t, m.sync)
				c.r.acquire(c.t, m.rsync)
				c.r.syncMirror(c, m)
				return invDone, nil
			}
		}
		if !c.r.syncPoint(c.t, &pendOp{kind: "RWMutex.Lock", enabled: func() bool { return !m.locked && m.readers == 0 }}) {
			return invYield, nil
		}
		if m.locked || m.readers > 0 {
			c.r.crash(ODeadlock, "deadlock", "RWMutex.Lock blocks forever")
		}
		m.locked = true
		c.r.acquire(c.t, m.sync)
		c.r.acquire(c.t, m.rsync)
		c.r.syncMirror(c, m)
		return invDone, nil
	}
	stubs["(*sync.RWMutex).TryLock"] = func(c *intrCtx) (invResult, Value) {
		m := c.r.mutexOf(c, 0)
		if !c.r.syncPoint(c.t, &pendOp{kind: "RWMutex.TryLock"}) {
			return invYield, nil
		}
		if m.locked || m.readers > 0 || m.writer != nil {
			c.r.syncMirror(c, m)
			return invDone, c.r.tt.False
		}
		m.locked = true
		m.writer = c.t
		c.r.acquire(c.t, m.sync)
		c.r.acquire(c.t, m.rsync)
		c.r.syncMirror(c, m)
		return invDone, c.r.tt.True
	}
	stubs["(*sync.RWMutex).Unlock"] = func(c *intrCtx) (invResult, Value) {
		m := c.r.mutexOf(c, 0)
		if !c.r.syncPoint(c.t, &pendOp{kind: "RWMutex.Unlock"}) {
			return invYield, nil
		}
		if !m.locked {
			c.r.crash(OCrash, "panic", "fatal error: sync: Unlock of unlocked RWMutex")
		}
		m.locked = false
		m.writer = nil
		c.r.release(c.t, &m.sync)
		c.r.syncMirror(c, m)
		return invDone, nil
	}
	stubs["(*sync.RWMutex).RLock"] = func(c *intrCtx) (invResult, Value) {
		m := c.r.mutexOf(c, 0)
		if !c.r.syncPoint(c.t, &pendOp{kind: "RWMutex.RLock", enabled: func() bool { return !m.locked && m.writer == nil }}) {
			return invYield, nil
		}
		if m.locked || m.writer != nil {
			c.r.crash(ODeadlock, "deadlock", "RWMutex.RLock blocks forever")
		}
		m.readers++
		c.r.acquire(c.t, m.sync)
		c.r.syncMirror(c, m)
		return invDone, nil
	}
	stubs["(*sync.RWMutex).TryRLock"] = func(c *intrCtx) (invResult, Value) {
		m := c.r.mutexOf(c, 0)
		if !c.r.syncPoint(c.t, &pendOp{kind: "RWMutex.TryRLock"}) {
			return invYield, nil
		}
		if m.locked || m.writer != nil {
			c.r.syncMirror(c, m)
			return invDone, c.r.tt.False
		}
		m.readers++
		c.r.acquire(c.t, m.sync)
		c.r.syncMirror(c, m)
		return invDone, c.r.tt.True
	}
	stubs["(*sync.RWMutex).RUnlock"] = func(c *intrCtx) (invResult, Value) {
		m := c.r.mutexOf(c, 0)
		if !c.r.syncPoint(c.t, &pendOp{kind: "RWMutex.RUnlock"}) {
			return invYield, nil
		}
		if m.readers == 0 {
			c.r.crash(OCrash, "panic", "fatal error: sync: RUnlock of unlocked RWMutex")
		}
		m.readers--
		c.r.release(c.t, &m.rsync)
		c.r.syncMirror(c, m)
		return invDone, nil
	}
	// ---- sync.WaitGroup ----
	wgAdd := func(c *intrCtx, d *Term) (invResult, Value) {
		m := c.r.mutexOf(c, 0)
		if !c.r.syncPoint(c.t, &pendOp{kind: "WaitGroup.Add"}) {
			return invYield, nil
		}
		dv := c.r.concretize(d, "wg-delta")
		m.count += int(dv)
		if m.count < 0 {
			c.r.goPanic("sync: negative WaitGroup counter")
		}
		if m.wgWaiters != 0 && dv > 0 && m.count == int(dv) {
			c.r.goPanic("sync: WaitGroup misuse: Add called concurrently with Wait")
		}
		c.r.release(c.t, &m.sync)
		if m.count == 0 && m.wgWaiters > 0 {
			for t := range m.wgAsleep {
				m.wgReleased[t] = true
				delete(m.wgAsleep, t)
			}
			m.wgWaiters = 0
		}
		return invDone, nil
	}
	stubs["(*sync.WaitGroup).Add"] = func(c *intrCtx) (invResult, Value) { return wgAdd(c, c.args[1].(*Term)) }
	stubs["(*sync.WaitGroup).Done"] = func(c *intrCtx) (invResult, Value) { return wgAdd(c, c.r.tt.Int(64, -1)) }
	// Wait follows sync.WaitGroup's algorithm: with a positive counter the caller registers as a
	// waiter and sleeps; the Add/Done that brings the counter to zero releases all waiters; a
	// released waiter that wakes up to a non-zero state panics ("WaitGroup is reused before
	// previous Wait has returned") - the window between release and wake-up is a scheduling point.
	stubs["(*sync.WaitGroup).Wait"] = func(c *intrCtx) (invResult, Value) {
		m := c.r.mutexOf(c, 0)
		if m.wgReleased[c.t] {
			// second half: woken up
			if !c.r.syncPoint(c.t, &pendOp{kind: "WaitGroup.Wait(wake)"}) {
				return invYield, nil
			}
			delete(m.wgReleased, c.t)
			if m.count != 0 || m.wgWaiters != 0 {
				c.r.goPanic("sync: WaitGroup is reused before previous Wait has returned")
			}
			c.r.acquire(c.t, m.sync)
			return invDone, nil
		}
		if m.wgAsleep[c.t] {
			// registered, not released yet: blocked
			if !c.r.syncPoint(c.t, &pendOp{kind: "WaitGroup.Wait(asleep)", enabled: func() bool { return m.wgReleased[c.t] }}) {
				return invYield, nil
			}
			c.r.crash(ODeadlock, "deadlock", "WaitGroup.Wait blocks forever")
		}
		if !c.r.multi {
			if m.count != 0 {
				c.r.crash(ODeadlock, "deadlock", "WaitGroup.Wait blocks forever")
			}
			c.r.acquire(c.t, m.sync)
			return invDone, nil
		}
		if !c.r.syncPoint(c.t, &pendOp{kind: "WaitGroup.Wait"}) {
			return invYield, nil
		}
		if m.count == 0 {
			c.r.acquire(c.t, m.sync)
			return invDone, nil
		}
		if m.wgAsleep == nil {
			m.wgAsleep, m.wgReleased = map[*Thread]bool{}, map[*Thread]bool{}
		}
		m.wgWaiters++
		m.wgAsleep[c.t] = true
		// sleep: the intrinsic is entered again once the thread is scheduled, which needs a release
		c.r.syncPoint(c.t, &pendOp{kind: "WaitGroup.Wait(asleep)", enabled: func() bool { return m.wgReleased[c.t] }})
		return invYield, nil
	}
	// ---- sync.Cond ----
	stubs["(*sync.Cond).Wait"] = func(c *intrCtx) (invResult, Value) {
		r := c.r
		p, ok := c.args[0].(Ptr)
		if !ok || p.s == nil {
			r.goPanic("runtime error: invalid memory address or nil pointer dereference (sync.Cond)")
		}
		fn := r.eng.hpkg.Func("vCondWait")
		if fn == nil {
			r.fail("harness runtime lacks vCondWait")
		}
		l := r.load(r.fieldByName(p.s, "L"))
		r.pushFrame(c.t, fn, []Value{Iface{typ: types.NewPointer(p.s.typ), val: p}, l}, nil, nil)
		return invPushed, nil
	}
	condNotify := func(all bool) intrFn {
		return func(c *intrCtx) (invResult, Value) {
			r := c.r
			if !r.syncPoint(c.t, &pendOp{kind: "Cond.Signal/Broadcast"}) {
				return invYield, nil
			}
			cs := r.condOf(c.args[0])
			r.release(c.t, &cs.sync)
			for len(cs.waiting) > 0 {
				cs.notified[cs.waiting[0]] = true
				cs.waiting = cs.waiting[1:]
				if !all {
					break
				}
			}
			return invDone, nil
		}
	}
	stubs["(*sync.Cond).Signal"] = condNotify(false)
	stubs["(*sync.Cond).Broadcast"] = condNotify(true)
	// ---- sync.Pool ----
	stubs["(*sync.Pool).Put"] = func(c *intrCtx) (invResult, Value) {
		r := c.r
		p := c.args[0].(Ptr)
		if !r.syncPoint(c.t, &pendOp{kind: "Pool.Put"}) {
			return invYield, nil
		}
		x := c.args[1].(Iface)
		if x.typ == nil {
			return invDone, nil
		}
		pm := r.poolOf(p.s)
		// the pool may drop any item at any time
		if r.eng.cfg.PoolDrops && r.choose(2, "pool-drop") == 1 {
			return invDone, nil
		}
		vc := make([]int32, r.maxT)
		copy(vc, c.t.vc)
		c.t.vc[c.t.id]++
		pm.items = append(pm.items, poolItem{x, vc})
		return invDone, nil
	}
	stubs["(*sync.Pool).Get"] = func(c *intrCtx) (invResult, Value) {
		r := c.r
		p := c.args[0].(Ptr)
		if !r.syncPoint(c.t, &pendOp{kind: "Pool.Get"}) {
			return invYield, nil
		}
		pm := r.poolOf(p.s)
		var k int
		if r.eng.cfg.PoolOrder == "lifo" {
			// (scale runs: the pool hands back its newest item and drops nothing)
			k = len(pm.items) - 1
			if k < 0 {
				k = 0
			}
		} else {
			k = r.choose(len(pm.items)+1, "pool-get")
		}
		if k < len(pm.items) {
			it := pm.items[k]
			pm.items = append(append([]poolItem(nil), pm.items[:k]...), pm.items[k+1:]...)
			join(c.t.vc, it.vc)
			return invDone, it.v
		}
		nf := r.fieldByName(p.s, "New")
		fv := r.load(nf).(FuncVal) // plain read of the New field: visible to the race detector
		if fv.IsNil() {
			return invDone, Iface{}
		}
		r.pushFrame(c.t, fv.fn, nil, fv.env, nil)
		return invPushed, nil
	}
	// ---- time ----
	stubs["time.NewTimer"] = func(c *intrCtx) (invResult, Value) {
		r := c.r
		tp := c.fn.Signature.Results().At(0).Type().(*types.Pointer).Elem()
		s := r.newSlot(tp, true)
		cs := r.fieldByName(s, "C")
		r.nextObj++
		ch := &ChanObj{typ: under(cs.typ).(*types.Chan), cap: 1, id: r.nextObj}
		cs.v = ch
		te := &timerEnv{ch: ch, id: len(r.timers)}
		r.timers = append(r.timers, te)
		r.timerBySlot[s] = te
		r.multi = true
		return invDone, Ptr{s}
	}
	stubs["(*time.Timer).Stop"] = func(c *intrCtx) (invResult, Value) {
		r := c.r
		if !r.syncPoint(c.t, &pendOp{kind: "Timer.Stop"}) {
			return invYield, nil
		}
		te := r.timerBySlot[c.args[0].(Ptr).s]
		if te == nil {
			r.fail("Timer.Stop on unknown timer")
		}
		was := !te.fired && !te.stopped
		te.stopped = true
		return invDone, r.tt.Bool(was)
	}
	stubs["(*time.Timer).Reset"] = func(c *intrCtx) (invResult, Value) {
		r := c.r
		if !r.syncPoint(c.t, &pendOp{kind: "Timer.Reset"}) {
			return invYield, nil
		}
		te := r.timerBySlot[c.args[0].(Ptr).s]
		if te == nil {
			r.fail("Timer.Reset on unknown timer")
		}
		was := !te.fired && !te.stopped
		te.fired, te.stopped = false, false
		return invDone, r.tt.Bool(was)
	}
	stubs["time.AfterFunc"] = func(c *intrCtx) (invResult, Value) {
		r := c.r
		fv, ok := c.args[1].(FuncVal)
		if !ok || fv.IsNil() {
			r.goPanic("runtime error: invalid memory address or nil pointer dereference (time.AfterFunc(nil))")
		}
		tp := c.fn.Signature.Results().At(0).Type().(*types.Pointer).Elem()
		s := r.newSlot(tp, true)
		te := &timerEnv{id: len(r.timers), fn: &fv, creator: c.t}
		r.timers = append(r.timers, te)
		r.timerBySlot[s] = te
		r.multi = true
		return invDone, Ptr{s}
	}
	stubs["time.NewTicker"] = func(c *intrCtx) (invResult, Value) {
		r := c.r
		if d, ok := c.args[0].(*Term); ok && d.IsConst() && sext(d.c, 64) <= 0 {
			r.goPanic("non-positive interval for NewTicker")
		}
		tp := c.fn.Signature.Results().At(0).Type().(*types.Pointer).Elem()
		s := r.newSlot(tp, true)
		cs := r.fieldByName(s, "C")
		r.nextObj++
		ch := &ChanObj{typ: under(cs.typ).(*types.Chan), cap: 1, id: r.nextObj}
		cs.v = ch
		te := &timerEnv{ch: ch, id: len(r.timers), ticks: 3}
		r.timers = append(r.timers, te)
		r.timerBySlot[s] = te
		r.multi = true
		return invDone, Ptr{s}
	}
	stubs["(*time.Ticker).Stop"] = func(c *intrCtx) (invResult, Value) {
		r := c.r
		if !r.syncPoint(c.t, &pendOp{kind: "Ticker.Stop"}) {
			return invYield, nil
		}
		if te := r.timerBySlot[c.args[0].(Ptr).s]; te != nil {
			te.stopped = true
		}
		return invDone, nil
	}
	stubs["(*time.Ticker).Reset"] = func(c *intrCtx) (invResult, Value) {
		r := c.r
		if !r.syncPoint(c.t, &pendOp{kind: "Ticker.Reset"}) {
			return invYield, nil
		}
		if te := r.timerBySlot[c.args[0].(Ptr).s]; te != nil {
			te.stopped, te.fired = false, false
			if te.ticks == 0 {
				te.ticks = 1
			}
		}
		return invDone, nil
	}
	stubs["time.Tick"] = func(c *intrCtx) (invResult, Value) {
		r := c.r
		r.nextObj++
		ch := &ChanObj{typ: under(c.fn.Signature.Results().At(0).Type()).(*types.Chan), cap: 1, id: r.nextObj}
		r.timers = append(r.timers, &timerEnv{ch: ch, id: len(r.timers), ticks: 3})
		r.multi = true
		return invDone, ch
	}
	// ---- math: the architecture-specific kernels have no Go body; fold them on constants ----
	for name, f := range map[string]func(float64) float64{"math.archFloor": math.Floor, "math.archCeil": math.Ceil, "math.archTrunc": math.Trunc, "math.archSqrt": math.Sqrt} {
		name, f := name, f
		stubs[name] = func(c *intrCtx) (invResult, Value) {
			x, ok := c.args[0].(*Term)
			if !ok || !x.IsConst() {
				c.r.fail(name + " of a symbolic argument is not modelled")
			}
			return invDone, c.r.tt.FConst(64, f(ffrom(64, x.c)))
		}
	}
	stubs["runtime.Gosched"] = func(c *intrCtx) (invResult, Value) {
		if !c.r.syncPoint(c.t, &pendOp{kind: "Gosched"}) {
			return invYield, nil
		}
		return invDone, nil
	}
	stubs["time.Sleep"] = stubs["runtime.Gosched"] // time is abstract: sleeping is just a scheduling point
	stubs["time.After"] = func(c *intrCtx) (invResult, Value) {
		r := c.r
		r.nextObj++
		ch := &ChanObj{typ: under(c.fn.Signature.Results().At(0).Type()).(*types.Chan), cap: 1, id: r.nextObj}
		r.timers = append(r.timers, &timerEnv{ch: ch, id: len(r.timers)})
		r.multi = true
		return invDone, ch
	}
	stubs["time.Now"] = func(c *intrCtx) (invResult, Value) {
		// The clock is part of the environment: every reading is an arbitrary instant not before
		// the previous one. The Time carries a monotonic reading (wall = hasMonotonic, ext = the
		// reading in ns), which is what Before/After/Sub/Add/Since work on; its wall-clock part is
		// fixed (formatting the time is not modelled).
		r := c.r
		z, ok := r.zero(c.fn.Signature.Results().At(0).Type()).(StructVal)
		if !ok || len(z.f) != 3 {
			return invDone, r.zero(c.fn.Signature.Results().At(0).Type())
		}
		m := r.clockReading()
		f := append([]Value(nil), z.f...)
		f[0] = r.tt.Const(BV(64), 1<<63)
		f[1] = m
		return invDone, StructVal{f}
	}
	stubs["time.runtimeNano"] = func(c *intrCtx) (invResult, Value) {
		return invDone, c.r.clockReading() // (time.startNano is 0: package initialisers do not run)
	}
	// Since / Until of a Time that carries a monotonic reading (every Time derived from time.Now
	// does): the difference to a new reading of the clock. Other Times: an arbitrary duration.
	monoOf := func(v Value) *Term {
		sv, ok := v.(StructVal)
		if !ok || len(sv.f) != 3 {
			return nil
		}
		w, ok := sv.f[0].(*Term)
		if !ok || !w.IsConst() || w.c>>63 == 0 {
			return nil
		}
		e, _ := sv.f[1].(*Term)
		return e
	}
	stubs["time.Since"] = func(c *intrCtx) (invResult, Value) {
		if e := monoOf(c.args[0]); e != nil {
			return invDone, c.r.tt.BinBV(OpSub, c.r.clockReading(), e)
		}
		d := c.r.freshInput("time.Since", BV(64), "int64")
		c.r.assume(c.r.tt.CmpBV(OpSle, c.r.tt.Int(64, 0), d))
		return invDone, d
	}
	stubs["time.Until"] = func(c *intrCtx) (invResult, Value) {
		if e := monoOf(c.args[0]); e != nil {
			return invDone, c.r.tt.BinBV(OpSub, e, c.r.clockReading())
		}
		return invDone, c.r.freshInput("time.Until", BV(64), "int64")
	}
	// ---- reflection-based sort entry points: run the real algorithm with an engine swapper ----
	stubs["sort.SliceStable"] = func(c *intrCtx) (invResult, Value) {
		return c.r.sortSliceVia(c, "stable_func", false)
	}
	stubs["sort.Slice"] = func(c *intrCtx) (invResult, Value) {
		return c.r.sortSliceVia(c, "pdqsort_func", true)
	}
	// ---- math/rand global generator -> harness-provided symbolic source ----
	stubs["math/rand.globalRand"] = func(c *intrCtx) (invResult, Value) {
		fn := c.r.eng.hpkg.Func("vGlobalRand")
		if fn == nil {
			c.r.fail("harness runtime lacks vGlobalRand")
		}
		c.r.pushFrame(c.t, fn, nil, nil, nil)
		return invPushed, nil
	}
}

func (r *Run) noteUF(u *Term) {
	for _, x := range r.ufApps {
		if x == u {
			return
		}
	}
	r.ufApps = append(r.ufApps, u)
}

func (r *Run) atomicSlot(c *intrCtx, i int) *Slot {
	p, ok := c.args[i].(Ptr)
	if !ok {
		r.fail(fmt.Sprintf("atomic op on %T", c.args[i]))
	}
	if p.s == nil {
		r.goPanic("runtime error: invalid memory address or nil pointer dereference (atomic)")
	}
	if !r.syncPoint(c.t, &pendOp{kind: "atomic"}) {
		return nil
	}
	return p.s
}

func (r *Run) fieldByName(s *Slot, name string) *Slot {
	st, ok := under(s.typ).(*types.Struct)
	if !ok {
		r.fail("fieldByName on non-struct " + s.typ.String())
	}
	for i := 0; i < st.NumFields(); i++ {
		if st.Field(i).Name() == name {
			return s.sub[i]
		}
	}
	r.fail("no field " + name + " in " + s.typ.String())
	return nil
}

type mutexState struct {
	locked  bool
	writer  *Thread // RWMutex: the writer that has announced itself (pending or holding)
	readers int
	count   int // WaitGroup
	// WaitGroup waiters: registered and asleep / released by the Add that reached zero and not yet awake
	wgWaiters  int
	wgAsleep   map[*Thread]bool
	wgReleased map[*Thread]bool
	sync       *syncMeta
	rsync      *syncMeta
}

func (r *Run) mutexOf(c *intrCtx, i int) *mutexState {
	p, ok := c.args[i].(Ptr)
	if !ok || p.s == nil {
		r.goPanic("runtime error: invalid memory address or nil pointer dereference (sync primitive)")
	}
	m := r.mutexes[p.s]
	if m == nil {
		m = &mutexState{}
		r.mutexes[p.s] = m
		// a Mutex / RWMutex that is a copy of a locked one is born locked (and nobody will ever
		// unlock it): the lock state is mirrored into the struct's own fields, which a struct copy
		// carries along
		if st, rd, ok := r.lockMirror(p.s); ok {
			if t, isT := st.v.(*Term); isT && t.IsConst() && t.c != 0 {
				m.locked = true
			}
			if rd != nil {
				if t, isT := rd.v.(*Term); isT && t.IsConst() && sext(t.c, t.sort.W) > 0 {
					m.readers = int(sext(t.c, t.sort.W))
				}
			}
		}
	}
	return m
}

// lockMirror finds the fields that mirror the engine's lock state inside a sync.Mutex
// (state) or sync.RWMutex (w.state, readerCount.v) value.
func (r *Run) lockMirror(s *Slot) (state, readers *Slot, ok bool) {
	st, isStruct := under(s.typ).(*types.Struct)
	if !isStruct {
		return nil, nil, false
	}
	for i := 0; i < st.NumFields(); i++ {
		switch st.Field(i).Name() {
		case "state":
			if len(s.sub) > i {
				return s.sub[i], nil, true
			}
		case "w":
			if len(s.sub) > i {
				ws, _, wok := r.lockMirror(s.sub[i])
				if !wok {
					return nil, nil, false
				}
				for j := 0; j < st.NumFields(); j++ {
					if st.Field(j).Name() == "readerCount" && len(s.sub) > j {
						rc := s.sub[j]
						if rst, isS := under(rc.typ).(*types.Struct); isS {
							for k := 0; k < rst.NumFields(); k++ {
								if rst.Field(k).Name() == "v" && len(rc.sub) > k {
									return ws, rc.sub[k], true
								}
							}
						}
					}
				}
				return ws, nil, true
			}
		}
	}
	return nil, nil, false
}

// syncMirror writes the engine's lock state into the mirrored fields (no race bookkeeping:
// the real primitives update these words atomically).
func (r *Run) syncMirror(c *intrCtx, m *mutexState) {
	p, ok := c.args[0].(Ptr)
	if !ok || p.s == nil {
		return
	}
	st, rd, ok := r.lockMirror(p.s)
	if !ok {
		return
	}
	if t, isT := st.v.(*Term); isT {
		v := uint64(0)
		if m.locked {
			v = 1
		}
		st.v = r.tt.Const(t.sort, v)
	}
	if rd != nil {
		if t, isT := rd.v.(*Term); isT {
			rd.v = r.tt.Const(t.sort, uint64(m.readers))
		}
	}
}

// condState: the notify list of a sync.Cond (tickets in arrival order; Signal wakes the oldest)
type condState struct {
	next     int
	waiting  []int
	notified map[int]bool
	sync     *syncMeta
}

func (r *Run) condOf(v Value) *condState {
	var s *Slot
	switch x := v.(type) {
	case Ptr:
		s = x.s
	case Iface:
		if p, ok := x.val.(Ptr); ok {
			s = p.s
		}
	}
	if s == nil {
		r.goPanic("runtime error: invalid memory address or nil pointer dereference (sync.Cond)")
	}
	if r.conds == nil {
		r.conds = map[*Slot]*condState{}
	}
	cs := r.conds[s]
	if cs == nil {
		cs = &condState{notified: map[int]bool{}}
		r.conds[s] = cs
	}
	return cs
}

type poolItem struct {
	v  Value
	vc []int32
}

type poolModel struct{ items []poolItem }

func (r *Run) poolOf(s *Slot) *poolModel {
	pm := r.pools[s]
	if pm == nil {
		pm = &poolModel{}
		r.pools[s] = pm
	}
	return pm
}

// stubOpaque: formatting and string building have no semantic content for any claim:
// results are zero values, strings are an opaque token.
func stubOpaque(c *intrCtx) (invResult, Value) {
	res := c.fn.Signature.Results()
	mk := func(t types.Type) Value {
		if isString(t) {
			return StrVal{"<fmt>"}
		}
		return c.r.zero(t)
	}
	switch res.Len() {
	case 0:
		return invDone, nil
	case 1:
		return invDone, mk(res.At(0).Type())
	}
	tup := make(Tuple, res.Len())
	for i := range tup {
		tup[i] = mk(res.At(i).Type())
	}
	return invDone, tup
}

func (r *Run) sortSliceVia(c *intrCtx, algo string, pdq bool) (invResult, Value) {
	iv, _ := c.args[0].(Iface)
	sl, ok := iv.val.(SliceVal)
	if !ok {
		r.goPanic("reflect: call of Swapper on non-slice")
	}
	less := c.args[1]
	sp := r.eng.prog.ImportedPackage("sort")
	fn := sp.Func(algo)
	if fn == nil {
		r.fail("sort." + algo + " not found")
	}
	ls := StructVal{f: []Value{less, FuncVal{intr: "swapper", bound: []Value{sl}}}}
	n := r.tt.Int(64, int64(sl.len))
	if pdq {
		lim := 0
		for x := sl.len; x > 0; x >>= 1 {
			lim++
		}
		r.pushFrame(c.t, fn, []Value{ls, r.tt.Int(64, 0), n, r.tt.Int(64, int64(lim))}, nil, nil)
	} else {
		r.pushFrame(c.t, fn, []Value{ls, n}, nil, nil)
	}
	return invPushed, nil
}
