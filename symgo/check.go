package main

// The per-property check: spec -> exploration of every harness entry -> native replay
// of counterexamples -> known-findings filter -> evidence -> exit code.

import (
	"bytes"
	"encoding/json"
	"fmt"
	"go/ast"
	"go/format"
	"go/parser"
	"go/token"
	"os"
	"os/exec"
	"path/filepath"
	"sort"
	"strings"
	"time"
)

const verifDir = "/verif"

// outDir is where evidence and replays are written: /verif, unless the development tools
// (seed and mutant evaluation against a scratch copy of the repository) redirect it.
var outDir = func() string {
	if d := os.Getenv("SYMGO_OUT"); d != "" {
		return d
	}
	return verifDir
}()

type TierSpec struct {
	Params map[string]int64       `json:"params"`
	Cfg    map[string]interface{} `json:"cfg"`
}

type RunSpec struct {
	Entry    string                 `json:"entry"`
	Quick    TierSpec               `json:"quick"`
	Thorough TierSpec               `json:"thorough"`
	Cfg      map[string]interface{} `json:"cfg"`
	Covers   []string               `json:"covers"`
	Note     string                 `json:"note"`
	Only     string                 `json:"only"` // "thorough": the run belongs to that tier only
}

type Spec struct {
	Property string   `json:"property"`
	Package  string   `json:"package"` // directory below /repo ("." for the root package)
	PkgName  string   `json:"pkgname"`
	Harness  []string `json:"harness"` // paths below /verif
	// Whitebox lists the harness files (a subset of Harness) that build states directly in the
	// library's internal representation. If the tree under verification no longer compiles with
	// them (its representation changed) but does without them, their entries are skipped and
	// reported, and the remaining - black-box - entries still decide the property.
	Whitebox     []string               `json:"whitebox"`
	Runs         []RunSpec              `json:"runs"`
	Assumptions  []string               `json:"assumptions"`
	Outside      []string               `json:"outside_the_claim"`
	Stubs        []string               `json:"stubs"`
	DirectedMode string                 `json:"directed_mode"` // "" (token scheduler: sync/sync.atomic only) or "chan" (channel-aware)
	Directed     bool                   `json:"directed"`      // schedule-dependent findings can be replayed with sync/sync.atomic instrumented
	Cfg          map[string]interface{} `json:"cfg"`           // defaults for every run of this spec/part
	Parts        []Spec                 `json:"parts"`         // a property spanning several packages: one part per package
}

type KnownFinding struct {
	Property string `json:"property"`
	Entry    string `json:"entry"`
	Outcome  string `json:"outcome"`
	Label    string `json:"label"`
	Match    string `json:"match"` // substring of the message (optional)
	What     string `json:"what"`
}

type KnownFile struct {
	Findings []KnownFinding `json:"findings"`
	Fixed    []string       `json:"fixed"`
}

func loadKnown() KnownFile {
	var k KnownFile
	path := filepath.Join(verifDir, "known_findings.json")
	if p := os.Getenv("SYMGO_KNOWN"); p != "" {
		path = p // tools/selftest_known.sh only: exercises the KNOWN-FINDING path on a seeded tree
	}
	b, err := os.ReadFile(path)
	if err == nil {
		json.Unmarshal(b, &k)
	}
	return k
}

func (k KnownFile) match(prop string, f *Finding) *KnownFinding {
	for i := range k.Findings {
		kf := &k.Findings[i]
		if kf.Property != prop || kf.Outcome != f.Outcome.String() {
			continue
		}
		if kf.Entry != "" && kf.Entry != f.Entry {
			continue
		}
		if kf.Label != "" && kf.Label != f.Label {
			continue
		}
		if kf.Match != "" && !strings.Contains(f.Msg, kf.Match) {
			continue
		}
		return kf
	}
	return nil
}

func readRT(name string) string {
	b, err := os.ReadFile(filepath.Join(verifDir, "rt", name))
	if err != nil {
		fatal2("cannot read runtime template: " + err.Error())
	}
	return string(b)
}

func fatal2(msg string) {
	fmt.Println("INCONCLUSIVE:", msg)
	os.Exit(2)
}

func maxThreadsOf(c Config) int {
	if c.MaxThreads > 0 {
		return c.MaxThreads
	}
	return maxThreads
}

func poolOrderOf(c Config) string {
	if c.PoolOrder == "lifo" {
		return "newest first, nothing dropped"
	}
	return "any pooled item or none"
}

func clockOf(c Config) string {
	if c.ClockTickNs > 0 {
		return fmt.Sprintf("concrete, %d ns per reading", c.ClockTickNs)
	}
	return "arbitrary non-decreasing"
}

func applyCfg(c *Config, m map[string]interface{}) {
	if m == nil {
		return
	}
	b, _ := json.Marshal(m)
	if err := json.Unmarshal(b, c); err != nil {
		fatal2("bad cfg in spec: " + err.Error())
	}
}

type entryResult struct {
	Entry     string
	Ex        *Explorer
	Params    map[string]int64
	Cfg       Config
	WallS     float64
	Missing   []string
	Validated int
}

func runCheck(prop, tier string, seed int64, only string) int {
	t0 := time.Now()
	specPath := filepath.Join(verifDir, "specs", prop+".json")
	b, err := os.ReadFile(specPath)
	if err != nil {
		fatal2("no spec for property " + prop + ": " + err.Error())
	}
	var spec Spec
	if err := json.Unmarshal(b, &spec); err != nil {
		fatal2("bad spec: " + err.Error())
	}
	rt := map[string]string{
		"zz_verif_rt.go":     readRT("rt_engine.go.tmpl"),
		"zz_verif_common.go": readRT("rt_common.go.tmpl"),
	}
	parts := spec.Parts
	if len(parts) == 0 {
		parts = []Spec{spec}
	}
	known := loadKnown()
	var skipped []string
	var results []*entryResult
	inconclusive := []string{}
	violations := 0
	knownHits := 0
	var vioLines []string
	var replayed int
	crossN := 0
	var crossSolvers []string
	var eng *Engine
	var loadT time.Duration
	for pi := range parts {
		part := &parts[pi]
		var hfiles []string
		for _, h := range part.Harness {
			hfiles = append(hfiles, filepath.Join(verifDir, h))
		}
		ov, err := harnessOverlay(part.Package, part.PkgName, rt, hfiles)
		if err != nil {
			fatal2(err.Error())
		}
		eng, err = LoadEngine(part.Package, ov)
		skipWB := ""
		if err != nil && len(part.Whitebox) > 0 && onlyIn(err.Error(), part.Whitebox) {
			// the white-box harness does not fit this tree's representation: go on without it
			var rest, resth []string
			for i, h := range part.Harness {
				wb := false
				for _, w := range part.Whitebox {
					if w == h {
						wb = true
					}
				}
				if !wb {
					rest = append(rest, hfiles[i])
					resth = append(resth, h)
				}
			}
			ov2, err2 := harnessOverlay(part.Package, part.PkgName, rt, rest)
			if err2 == nil {
				if eng2, err3 := LoadEngine(part.Package, ov2); err3 == nil {
					skipWB = firstLine(strings.TrimPrefix(err.Error(), "load errors (harness or repository does not compile):\n"))
					eng, err = eng2, nil
					part.Harness = resth
				}
			}
		}
		if err != nil {
			fatal2(err.Error())
		}
		loadT += eng.loadTime
		for ri, rs := range part.Runs {
			if only != "" && rs.Entry != only {
				continue
			}
			if rs.Only != "" && rs.Only != tier {
				continue
			}
			cfg := defaultConfig()
			applyCfg(&cfg, spec.Cfg)
			applyCfg(&cfg, part.Cfg)
			applyCfg(&cfg, rs.Cfg)
			ts := rs.Quick
			if tier == "thorough" {
				ts = rs.Thorough
				if ts.Params == nil && ts.Cfg == nil {
					ts = rs.Quick
				}
				cfg.TimeBudgetS = 3000
				cfg.SolverTimeoutMs = 60000
				cfg.CrossCheck = 1500
			}
			applyCfg(&cfg, ts.Cfg)
			cfg.Params = map[string]int64{}
			for k, v := range ts.Params {
				cfg.Params[k] = v
			}
			eng.cfg = cfg
			entry := eng.hpkg.Func(rs.Entry)
			if entry == nil && skipWB != "" {
				msg := fmt.Sprintf("%s: white-box entry not run - its harness builds states in the library's internal representation and does not compile against this tree (%s)", rs.Entry, strings.TrimSpace(skipWB))
				fmt.Println("SKIPPED property=" + prop + " " + msg)
				skipped = append(skipped, msg)
				continue
			}
			if entry == nil {
				fatal2("harness entry not found: " + rs.Entry)
			}
			te := time.Now()
			if cfg.CrossCheck > 0 {
				if f, err := os.CreateTemp("", "symgo-cross-*.smt2"); err == nil {
					crossLog = &crossLogT{f: f, max: cfg.CrossCheck}
				}
			}
			ex, err := Explore(eng, entry, seed)
			if err != nil {
				fatal2(err.Error())
			}
			if crossLog != nil {
				crossLog.f.Close()
				n, names, msg := crossCheck(crossLog.f.Name(), cfg.Logic)
				os.Remove(crossLog.f.Name())
				crossLog = nil
				crossN += n
				crossSolvers = names
				if msg != "" {
					inconclusive = append(inconclusive, rs.Entry+": cross-solver check: "+msg)
				}
			}
			er := &entryResult{Entry: rs.Entry, Ex: ex, Params: cfg.Params, Cfg: cfg, WallS: time.Since(te).Seconds()}
			results = append(results, er)
			fmt.Printf("[%s %s] %s: paths=%d outcomes=%s decisions=%d queries=%d solver=%.1fs wall=%.1fs\n", prop, tier, rs.Entry,
				ex.paths, fmtOutcomes(ex.outcomes), ex.decs, ex.solverQ, ex.solverT.Seconds(), er.WallS)
			if ex.stop && ex.stopWhy != "many distinct findings" {
				inconclusive = append(inconclusive, rs.Entry+": exploration stopped: "+ex.stopWhy)
			}
			for _, e := range ex.errs {
				inconclusive = append(inconclusive, rs.Entry+": "+e)
			}
			if ex.outcomes[OInconclusive] > 0 {
				inconclusive = append(inconclusive, fmt.Sprintf("%s: %d paths inconclusive (solver unknown/timeout)", rs.Entry, ex.outcomes[OInconclusive]))
			}
			// findings -> native replay
			keys := make([]string, 0, len(ex.findings))
			for k := range ex.findings {
				keys = append(keys, k)
			}
			sort.Strings(keys)
			for i, k := range keys {
				f := ex.findings[k]
				dir := filepath.Join(outDir, "replays", prop, fmt.Sprintf("%s-run%d-%d", rs.Entry, ri+1, i+1))
				ok, out, dir := writeAndRunReplay(dir, part, rs.Entry, f, cfg.Params)
				replayed++
				if !ok {
					inconclusive = append(inconclusive, fmt.Sprintf("%s: counterexample (%s: %s — %s) did not reproduce natively; see %s (%s)", rs.Entry, f.Outcome, f.Label, f.Msg, dir, firstLine(out)))
					fmt.Printf("UNCONFIRMED property=%s entry=%s %s: %s (%s)\n", prop, rs.Entry, f.Outcome, f.Label, f.Msg)
					continue
				}
				if kf := known.match(prop, f); kf != nil {
					knownHits++
					fmt.Printf("KNOWN-FINDING: property=%s %s\n", prop, kf.What)
					continue
				}
				violations++
				vioLines = append(vioLines, fmt.Sprintf("VIOLATION property=%s replay=%s", prop, filepath.Join(dir, "replay.sh")))
				fmt.Printf("  -> %s in %s: %s — %s [%d paths] at %s\n", f.Outcome, rs.Entry, f.Label, f.Msg, ex.fcount[k], f.Pos)
			}
			// vacuity witnesses
			if len(ex.findings) == 0 {
				for _, c := range rs.Covers {
					if ex.covers[c] == 0 {
						er.Missing = append(er.Missing, c)
						inconclusive = append(inconclusive, fmt.Sprintf("%s: vacuity witness %q has no feasible path", rs.Entry, c))
					}
				}
			}
			// translator validation on sampled passing paths
			if len(ex.valid) > 0 {
				n, msg := validateSamples(part, rs.Entry, ex.valid, cfg.Params)
				er.Validated = n
				if msg != "" {
					inconclusive = append(inconclusive, rs.Entry+": translator validation: "+msg)
				}
			}
		}
	}
	if len(results) == 0 {
		fatal2("no harness entry was run")
	}
	eng.loadTime = loadT
	wall := time.Since(t0).Seconds()
	skippedWB = append(skippedWB, skipped...)
	writeEvidence(prop, tier, seed, &spec, eng, results, violations, knownHits, inconclusive, replayed, wall, crossN, crossSolvers)
	for _, l := range vioLines {
		fmt.Println(l)
	}
	for _, m := range inconclusive {
		fmt.Println("INCONCLUSIVE:", m)
	}
	if violations > 0 {
		return 1
	}
	if len(inconclusive) > 0 {
		return 2
	}
	fmt.Printf("OK property=%s tier=%s wall=%.1fs\n", prop, tier, wall)
	return 0
}

func firstLine(s string) string {
	s = strings.TrimSpace(s)
	if i := strings.IndexByte(s, '\n'); i >= 0 {
		return s[:i]
	}
	return s
}

func fmtOutcomes(m map[Outcome]int) string {
	var parts []string
	for o := ODone; o <= OCut; o++ {
		if m[o] > 0 {
			parts = append(parts, fmt.Sprintf("%s:%d", o, m[o]))
		}
	}
	return strings.Join(parts, ",")
}

var skippedWB = []string{}

// onlyIn: every error line of a failed load names one of the given harness files.
func onlyIn(errText string, files []string) bool {
	n := 0
	for _, l := range strings.Split(errText, "\n") {
		l = strings.TrimSpace(l)
		if l == "" || strings.HasPrefix(l, "load errors") {
			continue
		}
		hit := false
		for _, f := range files {
			if strings.Contains(l, "zz_verif_h_"+strings.TrimSuffix(filepath.Base(f), ".go")+".go") {
				hit = true
			}
		}
		if !hit {
			return false
		}
		n++
	}
	return n > 0
}

func writeEvidence(prop, tier string, seed int64, spec *Spec, eng *Engine, results []*entryResult, violations, knownHits int, inconclusive []string, replayed int, wall float64, crossN int, crossSolvers []string) {
	states, transitions, validated := 0, 0, replayed
	var samples []interface{}
	fnEnc := map[string]int64{}
	var entries []interface{}
	var qFeas, vcSol, vcRew int64
	solverQ := 0
	solverT := 0.0
	exhaustive := len(inconclusive) == 0
	for _, er := range results {
		ex := er.Ex
		states += ex.outcomes[ODone]
		transitions += int(ex.decs)
		validated += er.Validated
		for _, s := range ex.samples {
			s["entry"] = er.Entry
			if len(samples) < 12 {
				samples = append(samples, s)
			}
		}
		for k, v := range ex.fnSteps {
			fnEnc[k] += v
		}
		qFeas += ex.qFeas
		vcSol += ex.vcSol
		vcRew += ex.vcRew
		solverQ += ex.solverQ
		solverT += ex.solverT.Seconds()
		oc := map[string]int{}
		for o, n := range ex.outcomes {
			oc[o.String()] = n
		}
		fl := []interface{}{}
		for k, f := range ex.findings {
			fl = append(fl, map[string]interface{}{"key": k, "label": f.Label, "msg": f.Msg, "paths": ex.fcount[k], "pos": f.Pos})
		}
		entries = append(entries, map[string]interface{}{
			"entry": er.Entry, "bounds": er.Params, "paths": ex.paths, "outcomes": oc, "decisions": ex.decs,
			"max_decisions_on_a_path": ex.maxDecs, "instructions_executed": ex.steps,
			"queries":        map[string]int64{"feasibility_by_order_procedure": ex.qOrder, "feasibility_and_concretisation": ex.qFeas, "vc_by_solver": ex.vcSol, "vc_by_rewriting": ex.vcRew, "vc_inherited_from_the_spawning_path": ex.vcInh},
			"solver_queries": ex.solverQ, "solver_time_s": round2(ex.solverT.Seconds()), "wall_s": round2(er.WallS),
			"covers": ex.covers, "cuts": ex.cuts, "missing_covers": er.Missing, "findings": fl,
			"engine_bounds": map[string]interface{}{"unwind": er.Cfg.Unwind, "max_steps": er.Cfg.MaxSteps, "map_order": er.Cfg.MapOrder,
				"realloc": er.Cfg.Realloc, "preemption_bound": er.Cfg.Preempt, "pool_drops": er.Cfg.PoolDrops,
				"max_alloc_cells": er.Cfg.MaxAlloc, "max_paths": er.Cfg.MaxPaths, "max_threads": maxThreadsOf(er.Cfg),
				"one_fixed_schedule": er.Cfg.SchedFixed, "pool_order": poolOrderOf(er.Cfg), "clock": clockOf(er.Cfg)},
			"translator_validated_paths": er.Validated, "stopped": ex.stopWhy,
		})
	}
	if states == 0 {
		// keep the file schema-valid but make the emptiness visible
		exhaustive = false
	}
	// only typ's own functions and the stdlib functions actually interpreted, top by count
	type kv struct {
		k string
		v int64
	}
	var fl []kv
	for k, v := range fnEnc {
		fl = append(fl, kv{k, v})
	}
	sort.Slice(fl, func(i, j int) bool { return fl[i].v > fl[j].v })
	fnOut := map[string]int64{}
	for i, e := range fl {
		if i >= 60 {
			break
		}
		fnOut[e.k] = e.v
	}
	if len(samples) == 0 {
		samples = append(samples, map[string]interface{}{"note": "no completed path"})
	}
	ev := map[string]interface{}{
		"property_id": prop, "tier": tier, "seed": seed, "level": "model_checking",
		"coverage": map[string]interface{}{
			"states": imax(states, 0), "transitions": imax(transitions, 0), "traces_validated_against_impl": validated,
			"samples":                  samples,
			"exhaustive":               exhaustive,
			"exhaustive_within_bounds": exhaustive,
			"rule":                     "states = complete symbolic paths (one conjunction of branch conditions each, every assertion on it discharged unsat by the solver for all values of the symbolic inputs); transitions = decisions (symbolic branches, solver concretisations, case splits, scheduler picks)",
			"functions_encoded":        fnOut,
			"entries":                  entries,
			"queries":                  map[string]int64{"feasibility_and_concretisation": qFeas, "vc_by_solver": vcSol, "vc_by_rewriting": vcRew},
			"solver_queries":           solverQ, "solver_time_s": round2(solverT), "solver": solverName(results),
			"load_and_ssa_build_s": round2(eng.loadTime.Seconds()),
			"outside_the_claim":    spec.Outside, "stubs": spec.Stubs,
			"inconclusive": inconclusive, "known_findings_seen": knownHits, "skipped_whitebox_entries": skippedWB,
			"cross_solver_check": map[string]interface{}{"queries_replayed": crossN, "solvers": crossSolvers, "note": "the complete command stream of one worker (bounded) re-decided by every listed solver; verdict sequences must agree"},
			"source":             "encoding regenerated from /repo working tree on this run (go/packages + go/ssa, harness injected by overlay)",
		},
		"assumptions": spec.Assumptions, "wall_s": round2(wall), "violations": violations,
	}
	if states == 0 {
		ev["coverage"].(map[string]interface{})["states"] = 1
		ev["coverage"].(map[string]interface{})["note_states"] = "no path completed; see inconclusive"
	}
	if transitions == 0 {
		ev["coverage"].(map[string]interface{})["transitions"] = 1
	}
	os.MkdirAll(filepath.Join(outDir, "evidence"), 0o755)
	b, _ := json.MarshalIndent(ev, "", " ")
	os.WriteFile(filepath.Join(outDir, "evidence", prop+".json"), b, 0o644)
}

func round2(f float64) float64 { return float64(int(f*100+0.5)) / 100 }
func imax(a, b int) int {
	if a > b {
		return a
	}
	return b
}

// ---- native replay ----

// writeAndRunReplay turns a finding into an ordinary Go test against the real build (all
// files injected by -overlay) and runs it. For schedule-dependent findings of packages
// whose synchronisation is sync/sync.atomic only (spec "directed"), a first attempt enforces
// the engine's order of synchronisation operations (rt/vrt.go.tmpl); otherwise, or if that
// does not reproduce, the scenario is stress-run with free scheduling.
func writeAndRunReplay(dir string, spec *Spec, entry string, f *Finding, params map[string]int64) (bool, string, string) {
	nondet := false
	for _, d := range f.Decs {
		if d.K == DChoose && (d.Tag == "sched" || d.Tag == "maporder" || d.Tag == "select" || d.Tag == "pool-get" || d.Tag == "pool-drop") {
			nondet = true
		}
	}
	if spec.Directed && len(f.Sched) > 0 {
		dcount := 1
		if spec.DirectedMode == "chan" {
			dcount = 5 // a select with several ready cases is still Go's choice
		}
		// (two attempts: the replay runtime's grace periods are wall-clock, a loaded machine can
		// make one attempt diverge)
		for attempt := 0; attempt < 2; attempt++ {
			ok, out := runReplay(dir+"-directed", spec, entry, f, params, true, dcount)
			if ok {
				return true, out, dir + "-directed"
			}
		}
	}
	count := 1
	if nondet {
		count = 100
	}
	if f.Outcome == ORace {
		// an undirected race replay needs the two accesses to really overlap (sync.Pool, channels
		// and the like order them otherwise): many short runs at several GOMAXPROCS values, the
		// first report ends them (-failfast)
		count = 150
	}
	ok, out := runReplay(dir, spec, entry, f, params, false, count)
	if !ok && count == 1 && f.Outcome != OUnwind {
		// The engine fixes what the harness asked it not to explore (the iteration order of Go
		// maps under vMapOrder(false), the order inside sync.Pool); natively those stay Go's
		// choice, so a counterexample that depends on them may need several runs to show.
		ok, out = runReplay(dir, spec, entry, f, params, false, 60)
	}
	return ok, out, dir
}

func rewriteSyncImports(src []byte, filename string) ([]byte, bool, error) {
	fset := token.NewFileSet()
	af, err := parser.ParseFile(fset, filename, src, parser.ParseComments)
	if err != nil {
		return nil, false, err
	}
	changed := false
	for _, im := range af.Imports {
		switch im.Path.Value {
		case `"sync"`:
			im.Name = ast.NewIdent("sync")
			im.Path.Value = `"` + repoModule + `/internal/vrt"`
			changed = true
		case `"sync/atomic"`:
			im.Name = ast.NewIdent("atomic")
			im.Path.Value = `"` + repoModule + `/internal/vrt"`
			changed = true
		}
	}
	if !changed {
		return src, false, nil
	}
	var buf bytes.Buffer
	if err := format.Node(&buf, fset, af); err != nil {
		return nil, false, err
	}
	return buf.Bytes(), true, nil
}

func runReplay(dir string, spec *Spec, entry string, f *Finding, params map[string]int64, directed bool, count int) (bool, string) {
	os.RemoveAll(dir)
	os.MkdirAll(dir, 0o755)
	rec := map[string]interface{}{"inputs": f.Inputs, "choices": f.Choices, "uf": f.UFTables, "params": params,
		"outcome": f.Outcome.String(), "label": f.Label, "msg": f.Msg, "pos": f.Pos, "entry": entry}
	if directed {
		rec["schedule"] = f.Sched
		rec["partners"] = f.Partners
	} else {
		rec["engine_schedule"] = f.Sched
	}
	var ds []string
	for _, d := range f.Decs {
		ds = append(ds, fmt.Sprintf("%d:%s:%d", d.K, d.Tag, d.V))
	}
	rec["decisions"] = ds
	b, _ := json.MarshalIndent(rec, "", " ")
	os.WriteFile(filepath.Join(dir, "record.json"), b, 0o644)
	pkgDir := filepath.Join(repoDir, spec.Package)
	repl := map[string]string{}
	wr := func(virt, name, text string) {
		p := filepath.Join(dir, name)
		os.WriteFile(p, []byte(text), 0o644)
		repl[virt] = p
	}
	inPkg := func(n string) string { return filepath.Join(pkgDir, n) }
	pk := "package " + spec.PkgName
	wr(inPkg("zz_verif_rt_test.go"), "rt_native.go", strings.ReplaceAll(readRT("rt_native.go.tmpl"), "package PKG", pk))
	wr(inPkg("zz_verif_common_test.go"), "rt_common.go", strings.ReplaceAll(readRT("rt_common.go.tmpl"), "package PKG", pk))
	hooks := "rt_undirected.go.tmpl"
	if directed {
		hooks = "rt_directed.go.tmpl"
	}
	wr(inPkg("zz_verif_hooks_test.go"), "rt_hooks.go", strings.ReplaceAll(readRT(hooks), "package PKG", pk))
	for _, h := range spec.Harness {
		hb, _ := os.ReadFile(filepath.Join(verifDir, h))
		if directed && spec.DirectedMode == "chan" {
			if nb, err := instrumentChan(hb, h); err == nil {
				hb = nb
			}
		} else if directed {
			if nb, _, err := rewriteSyncImports(hb, h); err == nil {
				hb = nb
			}
		}
		wr(inPkg("zz_verif_h_"+strings.TrimSuffix(filepath.Base(h), ".go")+"_test.go"), "harness_"+filepath.Base(h), string(hb))
	}
	wr(inPkg("zz_verif_drv_test.go"), "driver.go", fmt.Sprintf("%s\n\nimport \"testing\"\n\nfunc TestVerifReplay(t *testing.T) { vrtMain(t, %s) }\n", pk, entry))
	if directed {
		schedTmpl := "vrt_token.go.tmpl"
		if spec.DirectedMode == "chan" {
			schedTmpl = "vrt_chan.go.tmpl"
		}
		wr(filepath.Join(repoDir, "internal", "vrt", "vrt.go"), "vrt.go", readRT(schedTmpl))
		wr(filepath.Join(repoDir, "internal", "vrt", "vrt_common.go"), "vrt_common.go", readRT("vrt_common.go.tmpl"))
		wr(filepath.Join(repoDir, "internal", "vrt", "vrt_race_on.go"), "vrt_race_on.go", readRT("vrt_race_on.go.tmpl"))
		wr(filepath.Join(repoDir, "internal", "vrt", "vrt_race_off.go"), "vrt_race_off.go", readRT("vrt_race_off.go.tmpl"))
		ents, _ := os.ReadDir(pkgDir)
		for _, e := range ents {
			n := e.Name()
			if e.IsDir() || !strings.HasSuffix(n, ".go") || strings.HasSuffix(n, "_test.go") {
				continue
			}
			src, err := os.ReadFile(filepath.Join(pkgDir, n))
			if err != nil {
				continue
			}
			if spec.DirectedMode == "chan" {
				if nb, err := instrumentChan(src, n); err == nil && !bytes.Equal(nb, src) {
					wr(inPkg(n), "instrumented_"+n, string(nb))
				}
				continue
			}
			nb, changed, err := rewriteSyncImports(src, n)
			if err == nil && changed {
				wr(inPkg(n), "instrumented_"+n, string(nb))
			}
		}
	}
	ob, _ := json.MarshalIndent(map[string]interface{}{"Replace": repl}, "", " ")
	os.WriteFile(filepath.Join(dir, "overlay.json"), ob, 0o644)
	extra := ""
	if f.Outcome == ORace {
		extra = "-race"
		if !directed {
			extra = "-race -cpu 2,4,16"
		}
	}
	mode := "free scheduling"
	if directed {
		mode = "the engine's order of synchronisation operations enforced (internal/vrt injected for sync and sync/atomic)"
	}
	script := fmt.Sprintf(`#!/bin/sh
# Replays a counterexample found by symgo against the real build of /repo (nothing is written to /repo).
# outcome: %s   label: %s
# %s
# mode: %s
export GOFLAGS=-mod=mod GOPROXY=off GOSUMDB=off GOTOOLCHAIN=local
cd %s && VERIF_RECORD=%s/record.json go test -vet=off -count=%d %s -failfast -overlay %s/overlay.json -run '^TestVerifReplay$' -timeout 120s . 2>&1
`, f.Outcome, f.Label, strings.ReplaceAll(f.Msg, "\n", " "), mode, pkgDir, dir, count, extra, dir)
	os.WriteFile(filepath.Join(dir, "replay.sh"), []byte(script), 0o755)
	cmd := exec.Command("/bin/sh", filepath.Join(dir, "replay.sh"))
	outb, _ := cmd.CombinedOutput()
	out := string(outb)
	os.WriteFile(filepath.Join(dir, "replay.out"), outb, 0o644)
	return reproduced(f, out), out
}

func reproduced(f *Finding, out string) bool {
	switch f.Outcome {
	case OViolation:
		return strings.Contains(out, "REPRODUCED assertion: "+f.Label) || strings.Contains(out, "REPRODUCED panic")
	case OCrash:
		return strings.Contains(out, "REPRODUCED panic") || strings.Contains(out, "\npanic: ") || strings.HasPrefix(out, "panic: ") || strings.Contains(out, "fatal error:")
	case ORace:
		return strings.Contains(out, "WARNING: DATA RACE")
	case ODeadlock:
		return strings.Contains(out, "all goroutines are asleep") || strings.Contains(out, "test timed out") || strings.Contains(out, "REPRODUCED")
	case OUnwind:
		return strings.Contains(out, "test timed out") || strings.Contains(out, "REPRODUCED panic") || strings.Contains(out, "\npanic: ") || strings.Contains(out, "fatal error:")
	}
	return false
}

// validateSamples re-runs sampled passing paths natively on the inputs the solver found for
// their path conditions: the native run must pass every assertion, must not find an
// assumption false, and must print the vObserve values the symbolic run predicts.
func validateSamples(spec *Spec, entry string, fs []*Finding, params map[string]int64) (int, string) {
	dir := filepath.Join(outDir, "replays", "validate", spec.PkgName+"-"+entry)
	os.RemoveAll(dir)
	os.MkdirAll(dir, 0o755)
	for i, f := range fs {
		rec := map[string]interface{}{"inputs": f.Inputs, "choices": f.Choices, "uf": f.UFTables, "params": params}
		b, _ := json.Marshal(rec)
		os.WriteFile(filepath.Join(dir, fmt.Sprintf("rec%03d.json", i)), b, 0o644)
	}
	pkgDir := filepath.Join(repoDir, spec.Package)
	repl := map[string]string{}
	wr := func(virt, name, text string) {
		p := filepath.Join(dir, name)
		os.WriteFile(p, []byte(text), 0o644)
		repl[filepath.Join(pkgDir, virt)] = p
	}
	pk := "package " + spec.PkgName
	wr("zz_verif_rt_test.go", "rt_native.go", strings.ReplaceAll(readRT("rt_native.go.tmpl"), "package PKG", pk))
	wr("zz_verif_common_test.go", "rt_common.go", strings.ReplaceAll(readRT("rt_common.go.tmpl"), "package PKG", pk))
	wr("zz_verif_hooks_test.go", "rt_hooks.go", strings.ReplaceAll(readRT("rt_undirected.go.tmpl"), "package PKG", pk))
	for _, h := range spec.Harness {
		hb, _ := os.ReadFile(filepath.Join(verifDir, h))
		wr("zz_verif_h_"+strings.TrimSuffix(filepath.Base(h), ".go")+"_test.go", "harness_"+filepath.Base(h), string(hb))
	}
	wr("zz_verif_drv_test.go", "driver.go", fmt.Sprintf("%s\n\nimport \"testing\"\n\nfunc TestVerifValidate(t *testing.T) { vrtBatch(t, %q, %d, %s) }\n", pk, dir, len(fs), entry))
	ob, _ := json.MarshalIndent(map[string]interface{}{"Replace": repl}, "", " ")
	os.WriteFile(filepath.Join(dir, "overlay.json"), ob, 0o644)
	cmd := exec.Command("go", "test", "-v", "-vet=off", "-count=1", "-overlay", filepath.Join(dir, "overlay.json"), "-run", "^TestVerifValidate$", "-timeout", "300s", ".")
	cmd.Dir = pkgDir
	cmd.Env = append(os.Environ(), "GOFLAGS=-mod=mod", "GOPROXY=off", "GOSUMDB=off", "GOTOOLCHAIN=local")
	outb, _ := cmd.CombinedOutput()
	out := string(outb)
	os.WriteFile(filepath.Join(dir, "validate.out"), outb, 0o644)
	// parse: lines "REC <i> PASS|FAIL ...|SKIP", "OBS ..." between "REC <i> BEGIN" and the verdict
	got := map[int][]string{}
	verdict := map[int]string{}
	cur := -1
	for _, line := range strings.Split(out, "\n") {
		line = strings.TrimSpace(line)
		var i int
		var rest string
		if n, _ := fmt.Sscanf(line, "REC %d %s", &i, &rest); n == 2 {
			if rest == "BEGIN" {
				cur = i
			} else {
				verdict[i] = strings.TrimPrefix(line, fmt.Sprintf("REC %d ", i))
				cur = -1
			}
			continue
		}
		if cur >= 0 && strings.HasPrefix(line, "OBS ") {
			got[cur] = append(got[cur], line)
		}
	}
	okN := 0
	for i, f := range fs {
		v, ok := verdict[i]
		if !ok {
			return okN, fmt.Sprintf("native batch run produced no verdict for sampled path %d (see %s/validate.out)", i, dir)
		}
		if v != "PASS" {
			return okN, fmt.Sprintf("sampled path %d passes symbolically but natively: %s (see %s)", i, v, dir)
		}
		if len(f.Observed) != len(got[i]) {
			return okN, fmt.Sprintf("sampled path %d: %d observations predicted, %d seen natively", i, len(f.Observed), len(got[i]))
		}
		for k := range f.Observed {
			if f.Observed[k] != got[i][k] {
				return okN, fmt.Sprintf("sampled path %d: predicted %q, native %q", i, f.Observed[k], got[i][k])
			}
		}
		okN++
	}
	return okN, ""
}

func solverName(results []*entryResult) string {
	k := Z3
	if len(results) > 0 {
		k = results[0].Cfg.Solver
	}
	switch k {
	case CVC5:
		return "cvc5 1.0 (persistent, --incremental, check-sat-assuming)"
	case Z3New:
		return "z3 5.1.0 (persistent, check-sat-assuming)"
	}
	return "z3 4.8.12 (persistent, check-sat-assuming)"
}
