package main

// Run-time values of the symbolic interpreter.
//
// Scalars (bool, integers, floats) are *Term. Everything structural is concrete
// per path: pointers are *Slot identities, slices have concrete offset/len/cap,
// maps are association lists, interfaces carry a concrete dynamic type.

import (
	"fmt"
	"go/types"

	"golang.org/x/tools/go/ssa"
)

type Value interface{}

// Slot is an addressable memory location. Aggregates (struct, array) have sub-slots.
type Slot struct {
	typ    types.Type
	v      Value   // leaf value
	sub    []*Slot // struct fields / array elements
	id     int
	shared bool // heap/escaping: subject to race detection
	race   *raceMeta
	sync   *syncMeta // when the slot is used as a synchronisation object
	parent *Slot
}

type Ptr struct{ s *Slot } // s == nil: nil pointer

// SymPtr addresses element idx (symbolic) of a slice whose elements are scalar terms.
type SymPtr struct {
	sl  SliceVal
	idx *Term // BV64, known (by path condition) to be within [0,len)
}

type SliceVal struct {
	arr           *Slot // array slot (nil for nil slice)
	off, len, cap int
}

type StrVal struct{ s string }

type Iface struct {
	typ types.Type // nil: nil interface
	val Value
}

type FuncVal struct {
	fn    *ssa.Function
	env   []Value
	intr  string  // engine-implemented function (e.g. slice swapper)
	bound []Value // data for intr
}

func (f FuncVal) IsNil() bool { return f.fn == nil && f.intr == "" }

type StructVal struct{ f []Value }
type ArrayVal struct{ e []Value }
type Tuple []Value

type mapEntry struct {
	key  Value
	val  Value
	dead bool
}

type MapObj struct {
	typ     *types.Map
	entries []*mapEntry
	id      int
	race    *raceMeta
}

type mapIter struct {
	m     *MapObj
	order []*mapEntry
	pos   int
	str   string // range over string (unsupported beyond concrete)
	isStr bool
}

type ChanObj struct {
	typ    *types.Chan
	cap    int
	buf    []Value
	bufvc  [][]int32
	closed bool
	id     int
	sync   *syncMeta
	// rendezvous bookkeeping is held on the waiting threads
}

// reflectVal is what the stub for internal/reflectlite.ValueOf returns.
type reflectVal struct {
	v    Value
	typ  types.Type // nil: the invalid (zero) reflect.Value
	addr *Slot      // non-nil when the value is addressable (obtained through Elem of a pointer)
}

func under(t types.Type) types.Type { return t.Underlying() }

func termSort(t types.Type) (Sort, bool) {
	b, ok := under(t).(*types.Basic)
	if !ok {
		return Sort{}, false
	}
	switch b.Kind() {
	case types.Bool, types.UntypedBool:
		return BoolSort, true
	case types.Int8, types.Uint8:
		return BV(8), true
	case types.Int16, types.Uint16:
		return BV(16), true
	case types.Int32, types.Uint32, types.UntypedRune:
		return BV(32), true
	case types.Int, types.Uint, types.Int64, types.Uint64, types.Uintptr, types.UntypedInt:
		return BV(64), true
	case types.Float32:
		return FP(32), true
	case types.Float64, types.UntypedFloat:
		return FP(64), true
	}
	return Sort{}, false
}

func isSigned(t types.Type) bool {
	b, ok := under(t).(*types.Basic)
	if !ok {
		return false
	}
	return b.Info()&types.IsInteger != 0 && b.Info()&types.IsUnsigned == 0
}

func isFloat(t types.Type) bool {
	b, ok := under(t).(*types.Basic)
	return ok && b.Info()&types.IsFloat != 0
}

func isString(t types.Type) bool {
	b, ok := under(t).(*types.Basic)
	return ok && b.Info()&types.IsString != 0
}

func (r *Run) zero(t types.Type) Value {
	switch u := under(t).(type) {
	case *types.Basic:
		if s, ok := termSort(t); ok {
			return r.tt.Const(s, 0)
		}
		if u.Info()&types.IsString != 0 {
			return StrVal{}
		}
		if u.Kind() == types.UnsafePointer {
			return Ptr{}
		}
		if u.Kind() == types.UntypedNil {
			return Ptr{}
		}
		if u.Info()&types.IsComplex != 0 {
			r.fail("complex numbers are not supported")
		}
	case *types.Pointer:
		return Ptr{}
	case *types.Slice:
		return SliceVal{}
	case *types.Map:
		return (*MapObj)(nil)
	case *types.Chan:
		return (*ChanObj)(nil)
	case *types.Signature:
		return FuncVal{}
	case *types.Interface:
		return Iface{}
	case *types.Struct:
		f := make([]Value, u.NumFields())
		for i := range f {
			f[i] = r.zero(u.Field(i).Type())
		}
		return StructVal{f}
	case *types.Array:
		e := make([]Value, u.Len())
		for i := range e {
			e[i] = r.zero(u.Elem())
		}
		return ArrayVal{e}
	case *types.Tuple:
		e := make(Tuple, u.Len())
		for i := range e {
			e[i] = r.zero(u.At(i).Type())
		}
		return e
	}
	r.fail(fmt.Sprintf("zero value of unsupported type %s", t))
	return nil
}

func (r *Run) newSlot(t types.Type, shared bool) *Slot {
	r.nextObj++
	s := &Slot{typ: t, id: r.nextObj, shared: shared}
	switch u := under(t).(type) {
	case *types.Struct:
		s.sub = make([]*Slot, u.NumFields())
		for i := range s.sub {
			s.sub[i] = r.newSlot(u.Field(i).Type(), shared)
			s.sub[i].parent = s
		}
	case *types.Array:
		s.sub = make([]*Slot, u.Len())
		for i := range s.sub {
			s.sub[i] = r.newSlot(u.Elem(), shared)
			s.sub[i].parent = s
		}
	default:
		s.v = r.zero(t)
	}
	return s
}

// newArray creates an array slot of n elements of type elem.
func (r *Run) newArray(elem types.Type, n int) *Slot {
	r.nextObj++
	s := &Slot{typ: types.NewArray(elem, int64(n)), id: r.nextObj, shared: true}
	s.sub = make([]*Slot, n)
	for i := range s.sub {
		s.sub[i] = r.newSlot(elem, true)
		s.sub[i].parent = s
	}
	return s
}

func isAgg(s *Slot) bool {
	switch under(s.typ).(type) {
	case *types.Struct, *types.Array:
		return true
	}
	return false
}

// load reads a slot (with race tracking) and returns an immutable value.
func (r *Run) load(s *Slot) Value {
	if isAgg(s) {
		if _, ok := under(s.typ).(*types.Struct); ok {
			f := make([]Value, len(s.sub))
			for i, c := range s.sub {
				f[i] = r.load(c)
			}
			return StructVal{f}
		}
		e := make([]Value, len(s.sub))
		for i, c := range s.sub {
			e[i] = r.load(c)
		}
		return ArrayVal{e}
	}
	r.raceRead(s)
	return s.v
}

func (r *Run) store(s *Slot, v Value) {
	if isAgg(s) {
		switch x := v.(type) {
		case StructVal:
			if len(x.f) != len(s.sub) {
				r.fail("store: struct arity mismatch")
			}
			for i, c := range s.sub {
				r.store(c, x.f[i])
			}
		case ArrayVal:
			if len(x.e) != len(s.sub) {
				r.fail("store: array arity mismatch")
			}
			for i, c := range s.sub {
				r.store(c, x.e[i])
			}
		default:
			r.fail(fmt.Sprintf("store: aggregate slot of %s given %T", s.typ, v))
		}
		return
	}
	r.raceWrite(s)
	s.v = v
}

// peek reads without race tracking (engine-internal inspection).
func (r *Run) peek(s *Slot) Value {
	if isAgg(s) {
		if _, ok := under(s.typ).(*types.Struct); ok {
			f := make([]Value, len(s.sub))
			for i, c := range s.sub {
				f[i] = r.peek(c)
			}
			return StructVal{f}
		}
		e := make([]Value, len(s.sub))
		for i, c := range s.sub {
			e[i] = r.peek(c)
		}
		return ArrayVal{e}
	}
	return s.v
}

func isNilValue(v Value) bool {
	switch x := v.(type) {
	case Ptr:
		return x.s == nil
	case SliceVal:
		return x.arr == nil
	case *MapObj:
		return x == nil
	case *ChanObj:
		return x == nil
	case FuncVal:
		return x.IsNil()
	case Iface:
		return x.typ == nil
	case nil:
		return true
	}
	return false
}

// valueEq returns a Bool term for Go's == on two values of the same static type.
func (r *Run) valueEq(a, b Value) *Term {
	tt := r.tt
	switch x := a.(type) {
	case *Term:
		y, ok := b.(*Term)
		if !ok {
			r.fail(fmt.Sprintf("valueEq: term vs %T", b))
		}
		if x.sort.K == SFP {
			return tt.FCmp(OpFEq, x, y)
		}
		return tt.Eq(x, y)
	case Ptr:
		switch y := b.(type) {
		case Ptr:
			return tt.Bool(x.s == y.s)
		case SymPtr:
			r.fail("comparison of symbolic-index pointer")
		}
	case StrVal:
		return tt.Bool(x.s == b.(StrVal).s)
	case Iface:
		y := b.(Iface)
		if x.typ == nil || y.typ == nil {
			return tt.Bool(x.typ == nil && y.typ == nil)
		}
		if !types.Identical(x.typ, y.typ) {
			return tt.False
		}
		if !types.Comparable(x.typ) {
			r.goPanic("runtime error: comparing uncomparable type " + x.typ.String())
		}
		return r.valueEq(x.val, y.val)
	case StructVal:
		y := b.(StructVal)
		res := tt.True
		for i := range x.f {
			res = tt.And(res, r.valueEq(x.f[i], y.f[i]))
		}
		return res
	case ArrayVal:
		y := b.(ArrayVal)
		res := tt.True
		for i := range x.e {
			res = tt.And(res, r.valueEq(x.e[i], y.e[i]))
		}
		return res
	case *ChanObj:
		return tt.Bool(x == b.(*ChanObj))
	case *MapObj:
		if y, ok := b.(*MapObj); ok && (x == nil || y == nil) {
			return tt.Bool(x == nil && y == nil)
		}
	case SliceVal:
		if y, ok := b.(SliceVal); ok && (x.arr == nil || y.arr == nil) {
			return tt.Bool(x.arr == nil && y.arr == nil)
		}
	case FuncVal:
		if y, ok := b.(FuncVal); ok && (x.IsNil() || y.IsNil()) {
			return tt.Bool(x.IsNil() && y.IsNil())
		}
	case reflectVal:
	}
	r.fail(fmt.Sprintf("valueEq: unsupported comparison %T vs %T", a, b))
	return nil
}

// copyVal: values are immutable by convention, so sharing is fine.

func (sl SliceVal) at(i int) *Slot { return sl.arr.sub[sl.off+i] }

func describeValue(v Value) string {
	switch x := v.(type) {
	case *Term:
		return x.String()
	case Ptr:
		if x.s == nil {
			return "nil"
		}
		return fmt.Sprintf("&obj%d", x.s.id)
	case SliceVal:
		if x.arr == nil {
			return "[]nil"
		}
		return fmt.Sprintf("slice(obj%d,%d,%d,%d)", x.arr.id, x.off, x.len, x.cap)
	case StrVal:
		return fmt.Sprintf("%q", x.s)
	case Iface:
		if x.typ == nil {
			return "nil-iface"
		}
		return fmt.Sprintf("iface(%s,%s)", x.typ, describeValue(x.val))
	case StructVal:
		s := "{"
		for i, f := range x.f {
			if i > 0 {
				s += ","
			}
			s += describeValue(f)
		}
		return s + "}"
	}
	return fmt.Sprintf("%T", v)
}
