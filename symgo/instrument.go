package main

// Source instrumentation for the channel-aware directed replay (rt/vrt_chan.go.tmpl): a copy
// of the package under test (and of the harness) is given scheduling points before every
// channel operation, its go statements start goroutines through the replay scheduler, its
// timers are controlled by the schedule, and sync / sync/atomic are redirected as in the
// token mode. The copy only exists in the replay overlay.

import (
	"bytes"
	"go/ast"
	"go/format"
	"go/parser"
	"go/token"
	"strconv"

	"golang.org/x/tools/go/ast/astutil"
)

func containsChanOp(n ast.Node) bool {
	if n == nil {
		return false
	}
	found := false
	ast.Inspect(n, func(x ast.Node) bool {
		if found {
			return false
		}
		switch e := x.(type) {
		case *ast.FuncLit:
			return false
		case *ast.UnaryExpr:
			if e.Op == token.ARROW {
				found = true
			}
		case *ast.CallExpr:
			if id, ok := e.Fun.(*ast.Ident); ok && id.Name == "close" && len(e.Args) == 1 {
				found = true
			}
		}
		return true
	})
	return found
}

func needsPoint(s ast.Stmt) bool {
	switch st := s.(type) {
	case *ast.SelectStmt, *ast.SendStmt:
		return true
	case *ast.ExprStmt:
		return containsChanOp(st.X)
	case *ast.AssignStmt:
		for _, r := range st.Rhs {
			if containsChanOp(r) {
				return true
			}
		}
	case *ast.ReturnStmt:
		for _, r := range st.Results {
			if containsChanOp(r) {
				return true
			}
		}
	case *ast.IfStmt:
		return containsChanOp(st.Init) || containsChanOp(st.Cond)
	case *ast.ForStmt:
		return containsChanOp(st.Init) || containsChanOp(st.Cond)
	case *ast.SwitchStmt:
		return containsChanOp(st.Init) || containsChanOp(st.Tag)
	case *ast.DeclStmt:
		return containsChanOp(st)
	}
	return false
}

func vrtSel(name string) *ast.SelectorExpr {
	return &ast.SelectorExpr{X: ast.NewIdent("vrt"), Sel: ast.NewIdent(name)}
}

func instrumentChan(src []byte, filename string) ([]byte, error) {
	fset := token.NewFileSet()
	af, err := parser.ParseFile(fset, filename, src, parser.ParseComments)
	if err != nil {
		return nil, err
	}
	vrtPath := repoModule + "/internal/vrt"
	for _, im := range af.Imports {
		switch im.Path.Value {
		case `"sync"`:
			im.Name = ast.NewIdent("sync")
			im.Path.Value = strconv.Quote(vrtPath)
		case `"sync/atomic"`:
			im.Name = ast.NewIdent("atomic")
			im.Path.Value = strconv.Quote(vrtPath)
		}
	}
	used := false
	astutil.Apply(af, func(c *astutil.Cursor) bool {
		switch n := c.Node().(type) {
		case *ast.GoStmt:
			call := n.Call
			var repl *ast.CallExpr
			if len(call.Args) <= 5 {
				args := append([]ast.Expr{call.Fun}, call.Args...)
				repl = &ast.CallExpr{Fun: vrtSel("Go" + strconv.Itoa(len(call.Args))), Args: args}
			} else {
				repl = &ast.CallExpr{Fun: vrtSel("Go0"), Args: []ast.Expr{&ast.FuncLit{
					Type: &ast.FuncType{Params: &ast.FieldList{}},
					Body: &ast.BlockStmt{List: []ast.Stmt{&ast.ExprStmt{X: call}}}}}}
			}
			c.Replace(&ast.ExprStmt{X: repl})
			used = true
			return true
		case *ast.CallExpr:
			if id, ok := n.Fun.(*ast.Ident); ok && id.Name == "len" && len(n.Args) == 1 {
				n.Fun = vrtSel("Len")
				used = true
			}
		case *ast.SelectorExpr:
			if x, ok := n.X.(*ast.Ident); ok && x.Name == "time" && n.Sel.Name == "NewTimer" {
				x.Name = "vrt"
				used = true
			}
		}
		if st, ok := c.Node().(ast.Stmt); ok && c.Index() >= 0 && needsPoint(st) {
			c.InsertBefore(&ast.ExprStmt{X: &ast.CallExpr{Fun: vrtSel("Point")}})
			used = true
		}
		return true
	}, nil)
	if used {
		astutil.AddNamedImport(fset, af, "vrt", vrtPath)
	}
	var buf bytes.Buffer
	if err := format.Node(&buf, fset, af); err != nil {
		return nil, err
	}
	return buf.Bytes(), nil
}
