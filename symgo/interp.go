package main

// SSA interpreter: explicit frames (so threads can be suspended), one instruction per step.

import (
	"fmt"
	"go/constant"
	"go/token"
	"go/types"
	"strings"

	"golang.org/x/tools/go/ssa"
)

type fnInfo struct {
	fn    *ssa.Function
	idx   map[ssa.Value]int
	n     int
	steps int64
	calls int64
}

func (w *Worker) info(fn *ssa.Function) *fnInfo {
	if fi, ok := w.fninfo[fn]; ok {
		return fi
	}
	fi := &fnInfo{fn: fn, idx: map[ssa.Value]int{}}
	add := func(v ssa.Value) {
		fi.idx[v] = fi.n
		fi.n++
	}
	for _, p := range fn.Params {
		add(p)
	}
	for _, fv := range fn.FreeVars {
		add(fv)
	}
	for _, b := range fn.Blocks {
		for _, in := range b.Instrs {
			if v, ok := in.(ssa.Value); ok {
				add(v)
			}
		}
	}
	w.fninfo[fn] = fi
	return fi
}

type deferred struct {
	fv   FuncVal
	args []Value
	pos  token.Pos
}

type Frame struct {
	fn           *ssa.Function
	info         *fnInfo
	regs         []Value
	block        *ssa.BasicBlock
	prev         *ssa.BasicBlock
	pc           int
	defers       []deferred
	retTo        ssa.Value // register in the caller frame receiving the result (nil: discard)
	catch        bool      // vPanics frame: a panic unwinding through here is caught
	visits       map[int]int
	retVal       Value
	hasRet       bool
	insul        bool        // frame of a deferred call running while its parent unwinds
	onRet        func(Value) // engine continuation when this frame returns (instead of retTo)
	isDefer      bool
	afterRecover bool
}

type panicState struct {
	val       Value // Iface
	msg       string
	recovered bool
}

type Thread struct {
	id      int
	frames  []*Frame
	done    bool
	waiting bool
	granted bool
	pend    *pendOp
	panic   *panicState
	vc      []int32
	name    string
	// rendezvous results delivered by a peer
	delivered *delivery
}

func (t *Thread) top() *Frame { return t.frames[len(t.frames)-1] }

func (r *Run) pushFrame(t *Thread, fn *ssa.Function, args []Value, env []Value, retTo ssa.Value) *Frame {
	if fn.Blocks == nil {
		r.fail("call of function without body: " + fn.String())
	}
	if len(t.frames) > r.eng.cfg.MaxDepth {
		r.crash(OUnwind, "recursion-depth", fmt.Sprintf("call depth exceeds %d in %s", r.eng.cfg.MaxDepth, fn.String()))
	}
	fi := r.w.info(fn)
	fi.calls++
	fr := &Frame{fn: fn, info: fi, regs: make([]Value, fi.n), block: fn.Blocks[0], retTo: retTo}
	if len(args) != len(fn.Params) {
		r.fail(fmt.Sprintf("arity mismatch calling %s: %d args for %d params", fn.String(), len(args), len(fn.Params)))
	}
	copy(fr.regs, args)
	copy(fr.regs[len(fn.Params):], env)
	if len(t.frames) > 0 && t.top().insul {
		fr.insul = true
	}
	t.frames = append(t.frames, fr)
	return fr
}

func (r *Run) get(fr *Frame, v ssa.Value) Value {
	switch x := v.(type) {
	case *ssa.Const:
		return r.constVal(x)
	case *ssa.Function:
		return FuncVal{fn: x}
	case *ssa.Global:
		return Ptr{r.global(x)}
	case *ssa.Builtin:
		r.fail("builtin used as value")
	}
	i, ok := fr.info.idx[v]
	if !ok {
		r.fail(fmt.Sprintf("unknown ssa value %s (%T)", v.Name(), v))
	}
	return fr.regs[i]
}

func (r *Run) set(fr *Frame, v ssa.Value, val Value) {
	i, ok := fr.info.idx[v]
	if !ok {
		r.fail("set: unknown ssa value " + v.Name())
	}
	fr.regs[i] = val
}

func (r *Run) constVal(c *ssa.Const) Value {
	t := c.Type()
	if c.Value == nil {
		return r.zero(t)
	}
	if s, ok := termSort(t); ok {
		switch s.K {
		case SBool:
			return r.tt.Bool(constant.BoolVal(c.Value))
		case SBV:
			if isSigned(t) {
				return r.tt.Const(s, uint64(c.Int64()))
			}
			return r.tt.Const(s, c.Uint64())
		case SFP:
			return r.tt.FConst(s.W, c.Float64())
		}
	}
	if isString(t) {
		return StrVal{constant.StringVal(c.Value)}
	}
	r.fail(fmt.Sprintf("unsupported constant %s of type %s", c, t))
	return nil
}

func (r *Run) global(g *ssa.Global) *Slot {
	if s, ok := r.globals[g]; ok {
		return s
	}
	if g.Pkg != nil && !r.eng.initPkgs[g.Pkg] {
		if !r.eng.okGlobals[g.String()] {
			r.fail("access to global of a package whose init is not executed: " + g.String())
		}
	}
	s := r.newSlot(g.Type().(*types.Pointer).Elem(), true)
	r.globals[g] = s
	return s
}

func (r *Run) term(fr *Frame, v ssa.Value) *Term {
	x := r.get(fr, v)
	t, ok := x.(*Term)
	if !ok {
		r.fail(fmt.Sprintf("expected scalar term, got %T for %s", x, v.Name()))
	}
	return t
}

// goPanic raises a Go run-time panic in the current thread.
func (r *Run) goPanic(msg string) {
	// run-time errors are values of runtime.errorString / runtime.plainError (both implement
	// runtime.Error, their methods run from source); panics raised by library code are strings
	if rest := strings.TrimPrefix(msg, "runtime error: "); rest != msg {
		if t := r.runtimeType("errorString"); t != nil {
			panic(goPanicSignal{Iface{typ: t, val: StrVal{rest}}, msg})
		}
	}
	switch msg {
	case "send on closed channel", "close of closed channel", "close of nil channel", "assignment to entry in nil map":
		if t := r.runtimeType("plainError"); t != nil {
			panic(goPanicSignal{Iface{typ: t, val: StrVal{msg}}, msg})
		}
	}
	panic(goPanicSignal{Iface{typ: types.Typ[types.String], val: StrVal{msg}}, msg})
}

func (r *Run) runtimeType(name string) types.Type {
	pkg := r.eng.prog.ImportedPackage("runtime")
	if pkg == nil {
		return nil
	}
	obj := pkg.Pkg.Scope().Lookup(name)
	if obj == nil {
		return nil
	}
	if _, ok := obj.Type().Underlying().(*types.Basic); !ok {
		return nil
	}
	return obj.Type()
}

type goPanicSignal struct {
	val Iface
	msg string
}

// step executes one instruction of thread t. Returns false when the thread cannot
// continue now (waiting at a sync point or finished).
func (r *Run) stepNoRecover(t *Thread) (cont bool) {
	if len(t.frames) == 0 {
		t.done = true
		return false
	}
	fr := t.top()
	if t.panic != nil && !fr.insul {
		return r.unwind(t, fr)
	}
	if fr.afterRecover {
		// a deferred call recovered the panic: run the remaining deferred calls, then resume at
		// the function's Recover block (which loads the named results and returns)
		if len(fr.defers) > 0 {
			return r.runOneDefer(t, fr)
		}
		fr.afterRecover = false
		if fr.fn.Recover == nil {
			r.fail("recovered panic in a function without a Recover block")
		}
		fr.block = fr.fn.Recover
		fr.pc = 0
		return true
	}
	r.steps++
	if r.steps > r.eng.cfg.MaxSteps {
		r.crash(OUnwind, "step-budget", fmt.Sprintf("path exceeds %d instructions", r.eng.cfg.MaxSteps))
	}
	fr.info.steps++
	instr := fr.block.Instrs[fr.pc]
	switch in := instr.(type) {
	case *ssa.DebugRef:
		fr.pc++
	case *ssa.Alloc:
		s := r.newSlot(in.Type().(*types.Pointer).Elem(), in.Heap)
		r.set(fr, in, Ptr{s})
		fr.pc++
	case *ssa.BinOp:
		r.set(fr, in, r.binop(in.Op, r.get(fr, in.X), r.get(fr, in.Y), in.X.Type(), in.Y.Type()))
		fr.pc++
	case *ssa.UnOp:
		if in.Op == token.ARROW {
			return r.recvInstr(t, fr, in)
		}
		r.set(fr, in, r.unop(in, r.get(fr, in.X)))
		fr.pc++
	case *ssa.Phi:
		// handled at block entry
		fr.pc++
	case *ssa.Call:
		return r.callInstr(t, fr, in)
	case *ssa.ChangeType:
		r.set(fr, in, r.get(fr, in.X))
		fr.pc++
	case *ssa.ChangeInterface:
		r.set(fr, in, r.get(fr, in.X))
		fr.pc++
	case *ssa.Convert:
		r.set(fr, in, r.convert(r.get(fr, in.X), in.X.Type(), in.Type()))
		fr.pc++
	case *ssa.MakeInterface:
		r.set(fr, in, Iface{typ: in.X.Type(), val: r.get(fr, in.X)})
		fr.pc++
	case *ssa.MakeClosure:
		env := make([]Value, len(in.Bindings))
		for i, b := range in.Bindings {
			env[i] = r.get(fr, b)
		}
		r.set(fr, in, FuncVal{fn: in.Fn.(*ssa.Function), env: env})
		fr.pc++
	case *ssa.MakeSlice:
		n := r.concretize(r.term(fr, in.Len), "make-len")
		c := r.concretize(r.term(fr, in.Cap), "make-cap")
		if n < 0 {
			r.goPanic("runtime error: makeslice: len out of range")
		}
		if c < n {
			r.goPanic("runtime error: makeslice: cap out of range")
		}
		if c > int64(r.eng.cfg.MaxAlloc) {
			r.crash(OUnwind, "alloc-size", fmt.Sprintf("make([]T, %d, %d) beyond engine allocation bound", n, c))
		}
		arr := r.newArray(under(in.Type()).(*types.Slice).Elem(), int(c))
		r.set(fr, in, SliceVal{arr: arr, off: 0, len: int(n), cap: int(c)})
		fr.pc++
	case *ssa.MakeMap:
		r.nextObj++
		r.set(fr, in, &MapObj{typ: under(in.Type()).(*types.Map), id: r.nextObj})
		fr.pc++
	case *ssa.MakeChan:
		n := r.concretize(r.term(fr, in.Size), "chan-size")
		if n < 0 {
			r.goPanic("makechan: size out of range")
		}
		r.nextObj++
		r.set(fr, in, &ChanObj{typ: under(in.Type()).(*types.Chan), cap: int(n), id: r.nextObj})
		fr.pc++
	case *ssa.FieldAddr:
		p := r.get(fr, in.X)
		pp, ok := p.(Ptr)
		if !ok {
			r.fail(fmt.Sprintf("FieldAddr on %T", p))
		}
		if pp.s == nil {
			r.goPanic("runtime error: invalid memory address or nil pointer dereference")
		}
		if in.Field >= len(pp.s.sub) {
			r.fail(fmt.Sprintf("FieldAddr: slot of type %s has %d sub-slots, want field %d", pp.s.typ, len(pp.s.sub), in.Field))
		}
		r.set(fr, in, Ptr{pp.s.sub[in.Field]})
		fr.pc++
	case *ssa.Field:
		x := r.get(fr, in.X).(StructVal)
		r.set(fr, in, x.f[in.Field])
		fr.pc++
	case *ssa.IndexAddr:
		r.indexAddr(fr, in)
		fr.pc++
	case *ssa.Index:
		r.indexVal(fr, in)
		fr.pc++
	case *ssa.Lookup:
		r.lookup(fr, in)
		fr.pc++
	case *ssa.Slice:
		r.sliceInstr(fr, in)
		fr.pc++
	case *ssa.Store:
		r.storeTo(r.get(fr, in.Addr), r.get(fr, in.Val))
		fr.pc++
	case *ssa.MapUpdate:
		m := r.get(fr, in.Map).(*MapObj)
		if m == nil {
			r.goPanic("assignment to entry in nil map")
		}
		r.mapWrite(m)
		k := r.get(fr, in.Key)
		v := r.get(fr, in.Value)
		if e := r.mapFind(m, k); e != nil {
			e.val = v
		} else {
			m.entries = append(m.entries, &mapEntry{key: k, val: v})
		}
		fr.pc++
	case *ssa.Extract:
		tup := r.get(fr, in.Tuple).(Tuple)
		r.set(fr, in, tup[in.Index])
		fr.pc++
	case *ssa.TypeAssert:
		r.typeAssert(fr, in)
		fr.pc++
	case *ssa.Range:
		r.rangeInstr(fr, in)
		fr.pc++
	case *ssa.Next:
		r.nextInstr(fr, in)
		fr.pc++
	case *ssa.If:
		c := r.term(fr, in.Cond)
		if r.branch(c) {
			r.jump(t, fr, fr.block.Succs[0])
		} else {
			r.jump(t, fr, fr.block.Succs[1])
		}
	case *ssa.Jump:
		r.jump(t, fr, fr.block.Succs[0])
	case *ssa.Return:
		var rv Value
		switch len(in.Results) {
		case 0:
		case 1:
			rv = r.get(fr, in.Results[0])
		default:
			tup := make(Tuple, len(in.Results))
			for i, x := range in.Results {
				tup[i] = r.get(fr, x)
			}
			rv = tup
		}
		r.doReturn(t, fr, rv)
	case *ssa.Panic:
		v := r.get(fr, in.X)
		iv, _ := v.(Iface)
		msg := "panic"
		if s, ok := iv.val.(StrVal); ok {
			msg = s.s
		}
		r.raisePanic(t, &panicState{val: iv, msg: msg})
	case *ssa.Defer:
		fv, args := r.resolveCall(fr, in.Common())
		fr.defers = append(fr.defers, deferred{fv: fv, args: args, pos: in.Pos()})
		fr.pc++
	case *ssa.RunDefers:
		if len(fr.defers) == 0 {
			fr.pc++
			return true
		}
		return r.runOneDefer(t, fr)
	case *ssa.Go:
		fv, args := r.resolveCall(fr, in.Common())
		r.spawnThread(t, fv, args)
		fr.pc++
	case *ssa.Send:
		return r.sendInstr(t, fr, in)
	case *ssa.Select:
		return r.selectInstr(t, fr, in)
	case *ssa.SliceToArrayPointer:
		r.fail("SliceToArrayPointer unsupported")
	default:
		r.fail(fmt.Sprintf("unsupported SSA instruction %T", instr))
	}
	return true
}

func (r *Run) jump(t *Thread, fr *Frame, to *ssa.BasicBlock) {
	from := fr.block
	if fr.visits == nil {
		fr.visits = map[int]int{}
	}
	fr.visits[to.Index]++
	if fr.visits[to.Index] > r.eng.cfg.Unwind {
		r.crash(OUnwind, "unwinding", fmt.Sprintf("loop in %s (block %d) exceeds unwinding bound %d", fr.fn.String(), to.Index, r.eng.cfg.Unwind))
	}
	// phis
	var idx = -1
	for i, p := range to.Preds {
		if p == from {
			idx = i
			break
		}
	}
	var vals []Value
	n := 0
	for _, in := range to.Instrs {
		phi, ok := in.(*ssa.Phi)
		if !ok {
			break
		}
		vals = append(vals, r.get(fr, phi.Edges[idx]))
		n++
	}
	for i := 0; i < n; i++ {
		r.set(fr, to.Instrs[i].(*ssa.Phi), vals[i])
	}
	fr.prev = from
	fr.block = to
	fr.pc = n
}

func (r *Run) doReturn(t *Thread, fr *Frame, rv Value) {
	t.frames = t.frames[:len(t.frames)-1]
	if fr.onRet != nil {
		fr.onRet(rv)
		return
	}
	if fr.catch {
		// vPanics(f) returned normally
		caller := t.top()
		r.set(caller, fr.retTo, r.tt.False)
		caller.pc++
		return
	}
	if fr.isDefer {
		return // the RunDefers / unwind loop of the parent continues
	}
	if len(t.frames) == 0 {
		t.done = true
		return
	}
	caller := t.top()
	if fr.retTo != nil {
		r.set(caller, fr.retTo, rv)
	}
	caller.pc++
}

// runOneDefer pops and runs the last deferred call of fr.
func (r *Run) runOneDefer(t *Thread, fr *Frame) bool {
	d := fr.defers[len(fr.defers)-1]
	res, _ := r.invoke(t, d.fv, d.args, nil, func(nf *Frame) {
		nf.isDefer = true
		if t.panic != nil {
			nf.insul = true
		}
	})
	switch res {
	case invYield:
		return false
	default:
		// invDone: intrinsic completed; invPushed: frame pushed
		fr.defers = fr.defers[:len(fr.defers)-1]
		if res == invPushed {
			// remove from list now; frame returns into the same RunDefers instruction
		}
	}
	return true
}

// raisePanic starts a panic in thread t. If it is raised inside a deferred call that is running
// while an earlier panic unwinds (an insulated frame, or anything it called), the new panic
// replaces the earlier one: the deferred call itself must now unwind too.
func (r *Run) raisePanic(t *Thread, ps *panicState) {
	t.panic = ps
	for i := len(t.frames) - 1; i >= 0; i-- {
		if t.frames[i].insul {
			t.frames[i].insul = false
			break
		}
	}
}

// unwind performs one step of panic propagation in frame fr.
func (r *Run) unwind(t *Thread, fr *Frame) bool {
	if t.panic.recovered {
		t.panic = nil
		fr.afterRecover = true
		return true
	}
	if len(fr.defers) > 0 {
		return r.runOneDefer(t, fr)
	}
	t.frames = t.frames[:len(t.frames)-1]
	if fr.catch {
		caller := t.top()
		r.set(caller, fr.retTo, r.tt.True)
		caller.pc++
		t.panic = nil
		return true
	}
	if len(t.frames) == 0 {
		msg := t.panic.msg
		r.crash(OCrash, "panic", fmt.Sprintf("uncaught panic in thread %d: %s", t.id, msg))
	}
	return true
}

// ---- operators ----

func (r *Run) binop(op token.Token, x, y Value, xt, yt types.Type) Value {
	tt := r.tt
	switch op {
	case token.EQL:
		return r.valueEq(x, y)
	case token.NEQ:
		return tt.Not(r.valueEq(x, y))
	}
	if sx, ok := x.(StrVal); ok {
		sy := y.(StrVal)
		switch op {
		case token.ADD:
			return StrVal{sx.s + sy.s}
		case token.LSS:
			return tt.Bool(sx.s < sy.s)
		case token.LEQ:
			return tt.Bool(sx.s <= sy.s)
		case token.GTR:
			return tt.Bool(sx.s > sy.s)
		case token.GEQ:
			return tt.Bool(sx.s >= sy.s)
		}
		r.fail("unsupported string operator " + op.String())
	}
	a, ok1 := x.(*Term)
	b, ok2 := y.(*Term)
	if !ok1 || !ok2 {
		r.fail(fmt.Sprintf("binop %s on %T, %T", op, x, y))
	}
	if a.sort.K == SFP {
		switch op {
		case token.ADD:
			return tt.FBin(OpFAdd, a, b)
		case token.SUB:
			return tt.FBin(OpFSub, a, b)
		case token.MUL:
			return tt.FBin(OpFMul, a, b)
		case token.QUO:
			return tt.FBin(OpFDiv, a, b)
		case token.LSS:
			return tt.FCmp(OpFLt, a, b)
		case token.LEQ:
			return tt.FCmp(OpFLe, a, b)
		case token.GTR:
			return tt.FCmp(OpFLt, b, a)
		case token.GEQ:
			return tt.FCmp(OpFLe, b, a)
		}
		r.fail("unsupported float operator " + op.String())
	}
	if a.sort.K == SBool {
		switch op {
		case token.AND, token.LAND:
			return tt.And(a, b)
		case token.OR, token.LOR:
			return tt.Or(a, b)
		}
		r.fail("unsupported bool operator " + op.String())
	}
	signed := isSigned(xt)
	w := a.sort.W
	switch op {
	case token.ADD:
		return tt.BinBV(OpAdd, a, b)
	case token.SUB:
		return tt.BinBV(OpSub, a, b)
	case token.MUL:
		return tt.BinBV(OpMul, a, b)
	case token.QUO, token.REM:
		if r.branch(tt.Eq(b, tt.Const(b.sort, 0))) {
			r.goPanic("runtime error: integer divide by zero")
		}
		if signed {
			// Go: MinInt / -1 == MinInt, MinInt % -1 == 0 (SMT bvsdiv/bvsrem agree)
			if op == token.QUO {
				return tt.BinBV(OpSDiv, a, b)
			}
			return tt.BinBV(OpSRem, a, b)
		}
		if op == token.QUO {
			return tt.BinBV(OpUDiv, a, b)
		}
		return tt.BinBV(OpURem, a, b)
	case token.AND:
		return tt.BinBV(OpAnd, a, b)
	case token.OR:
		return tt.BinBV(OpOr, a, b)
	case token.XOR:
		return tt.BinBV(OpXor, a, b)
	case token.AND_NOT:
		return tt.BinBV(OpAnd, a, tt.NotBV(b))
	case token.SHL, token.SHR:
		if isSigned(yt) {
			if r.branch(tt.CmpBV(OpSlt, b, tt.Const(b.sort, 0))) {
				r.goPanic("runtime error: negative shift amount")
			}
		}
		// normalise the count to the operand width, saturating at w
		var cnt *Term
		if b.sort.W > w {
			big := tt.CmpBV(OpUle, tt.Const(b.sort, uint64(w)), b)
			cnt = tt.Ite(big, tt.Const(BV(w), uint64(w)), tt.Extract(b, w-1, 0))
		} else {
			cnt = tt.ZExt(b, w)
		}
		if op == token.SHL {
			return tt.BinBV(OpShl, a, cnt)
		}
		if signed {
			return tt.BinBV(OpAShr, a, cnt)
		}
		return tt.BinBV(OpLShr, a, cnt)
	case token.LSS:
		if signed {
			return tt.CmpBV(OpSlt, a, b)
		}
		return tt.CmpBV(OpUlt, a, b)
	case token.LEQ:
		if signed {
			return tt.CmpBV(OpSle, a, b)
		}
		return tt.CmpBV(OpUle, a, b)
	case token.GTR:
		if signed {
			return tt.CmpBV(OpSlt, b, a)
		}
		return tt.CmpBV(OpUlt, b, a)
	case token.GEQ:
		if signed {
			return tt.CmpBV(OpSle, b, a)
		}
		return tt.CmpBV(OpUle, b, a)
	}
	r.fail("unsupported binary operator " + op.String())
	return nil
}

func (r *Run) unop(in *ssa.UnOp, x Value) Value {
	tt := r.tt
	switch in.Op {
	case token.MUL:
		return r.loadFrom(x)
	case token.NOT:
		return tt.Not(x.(*Term))
	case token.SUB:
		a := x.(*Term)
		if a.sort.K == SFP {
			return tt.FNeg(a)
		}
		return tt.NegBV(a)
	case token.XOR:
		return tt.NotBV(x.(*Term))
	}
	r.fail("unsupported unary operator " + in.Op.String())
	return nil
}

func (r *Run) loadFrom(p Value) Value {
	switch pp := p.(type) {
	case Ptr:
		if pp.s == nil {
			r.goPanic("runtime error: invalid memory address or nil pointer dereference")
		}
		return r.load(pp.s)
	case SymPtr:
		// ite chain over the elements
		var res *Term
		for i := pp.sl.len - 1; i >= 0; i-- {
			e := r.load(pp.sl.at(i)).(*Term)
			if res == nil {
				res = e
			} else {
				res = r.tt.Ite(r.tt.Eq(pp.idx, r.tt.Int(64, int64(i))), e, res)
			}
		}
		return res
	}
	r.fail(fmt.Sprintf("load through %T", p))
	return nil
}

func (r *Run) storeTo(p Value, v Value) {
	switch pp := p.(type) {
	case Ptr:
		if pp.s == nil {
			r.goPanic("runtime error: invalid memory address or nil pointer dereference")
		}
		r.store(pp.s, v)
		return
	case SymPtr:
		nv := v.(*Term)
		for i := 0; i < pp.sl.len; i++ {
			s := pp.sl.at(i)
			old := r.load(s).(*Term)
			r.store(s, r.tt.Ite(r.tt.Eq(pp.idx, r.tt.Int(64, int64(i))), nv, old))
		}
		return
	}
	r.fail(fmt.Sprintf("store through %T", p))
}

func (r *Run) convert(x Value, from, to types.Type) Value {
	tt := r.tt
	ts, tok := termSort(to)
	fs, fok := termSort(from)
	if tok && fok {
		a := x.(*Term)
		switch {
		case fs.K == SBV && ts.K == SBV:
			if ts.W == fs.W {
				return a
			}
			if ts.W < fs.W {
				return tt.Extract(a, ts.W-1, 0)
			}
			if isSigned(from) {
				return tt.SExt(a, ts.W)
			}
			return tt.ZExt(a, ts.W)
		case fs.K == SBV && ts.K == SFP:
			return tt.FFromInt(a, isSigned(from), ts.W)
		case fs.K == SFP && ts.K == SBV:
			return tt.FToInt(a, isSigned(to), ts.W)
		case fs.K == SFP && ts.K == SFP:
			return tt.FToFP(a, ts.W)
		case fs.K == SBool && ts.K == SBool:
			return a
		}
	}
	// pointer <-> unsafe.Pointer
	if _, ok := x.(Ptr); ok {
		return x
	}
	if isString(to) {
		switch v := x.(type) {
		case StrVal:
			return v
		case *Term:
			if v.IsConst() {
				return StrVal{string(rune(sext(v.c, v.sort.W)))}
			}
		case SliceVal:
			// []byte / []rune -> string with concrete contents
			bs := make([]byte, 0, v.len)
			for i := 0; i < v.len; i++ {
				e, ok := r.load(v.at(i)).(*Term)
				if !ok || !e.IsConst() {
					r.fail("conversion of symbolic bytes to string")
				}
				bs = append(bs, byte(e.c))
			}
			return StrVal{string(bs)}
		}
	}
	if sv, ok := x.(StrVal); ok {
		if sl, ok := under(to).(*types.Slice); ok {
			if b, ok := under(sl.Elem()).(*types.Basic); ok && b.Kind() == types.Uint8 {
				arr := r.newArray(sl.Elem(), len(sv.s))
				for i := 0; i < len(sv.s); i++ {
					arr.sub[i].v = tt.Const(BV(8), uint64(sv.s[i]))
				}
				return SliceVal{arr: arr, len: len(sv.s), cap: len(sv.s)}
			}
		}
	}
	r.fail(fmt.Sprintf("unsupported conversion %s -> %s (%T)", from, to, x))
	return nil
}

// ---- indexing ----

func (r *Run) isScalarElem(t types.Type) bool {
	_, ok := termSort(t)
	return ok
}

// boundsCheck forks on 0 <= idx < n; the failing side panics.
func (r *Run) boundsCheck(idx *Term, n int, what string) {
	tt := r.tt
	if idx.sort.W != 64 {
		r.fail("index of unexpected width")
	}
	in := tt.And(tt.CmpBV(OpSle, tt.Int(64, 0), idx), tt.CmpBV(OpSlt, idx, tt.Int(64, int64(n))))
	if !r.branch(in) {
		r.goPanic(fmt.Sprintf("runtime error: index out of range [%s] with length %d", what, n))
	}
}

func (r *Run) idxTerm(fr *Frame, v ssa.Value) *Term {
	t := r.term(fr, v)
	if t.sort.W < 64 {
		if isSigned(v.Type()) {
			return r.tt.SExt(t, 64)
		}
		return r.tt.ZExt(t, 64)
	}
	return t
}

func (r *Run) indexAddr(fr *Frame, in *ssa.IndexAddr) {
	x := r.get(fr, in.X)
	idx := r.idxTerm(fr, in.Index)
	switch xv := x.(type) {
	case SliceVal:
		r.boundsCheck(idx, xv.len, "slice")
		if idx.IsConst() {
			r.set(fr, in, Ptr{xv.at(int(idx.c))})
			return
		}
		elem := under(in.X.Type()).(*types.Slice).Elem()
		if r.isScalarElem(elem) && !r.eng.cfg.ConcretizeIdx {
			r.set(fr, in, SymPtr{sl: xv, idx: idx})
			return
		}
		i := r.concretize(idx, "index")
		r.set(fr, in, Ptr{xv.at(int(i))})
	case Ptr: // *array
		if xv.s == nil {
			r.goPanic("runtime error: invalid memory address or nil pointer dereference")
		}
		n := len(xv.s.sub)
		r.boundsCheck(idx, n, "array")
		if idx.IsConst() {
			r.set(fr, in, Ptr{xv.s.sub[int(idx.c)]})
			return
		}
		elem := under(xv.s.typ).(*types.Array).Elem()
		if r.isScalarElem(elem) && !r.eng.cfg.ConcretizeIdx {
			r.set(fr, in, SymPtr{sl: SliceVal{arr: xv.s, off: 0, len: n, cap: n}, idx: idx})
			return
		}
		i := r.concretize(idx, "index")
		r.set(fr, in, Ptr{xv.s.sub[int(i)]})
	default:
		r.fail(fmt.Sprintf("IndexAddr on %T", x))
	}
}

// selectTerm builds elem(idx) for an in-range symbolic index as a chain of if-then-else terms
// (lookup tables such as math/bits' len8tab are indexed by a symbolic byte).
func (r *Run) selectTerm(idx *Term, n int, elem func(i int) *Term) *Term {
	out := elem(n - 1)
	for i := n - 2; i >= 0; i-- {
		out = r.tt.Ite(r.tt.Eq(idx, r.tt.Int(64, int64(i))), elem(i), out)
	}
	return out
}

func (r *Run) strByte(sv StrVal, idx *Term) *Term {
	if idx.IsConst() {
		return r.tt.Const(BV(8), uint64(sv.s[int(idx.c)]))
	}
	if r.eng.cfg.ConcretizeIdx || len(sv.s) > 1024 {
		i := r.concretize(idx, "index")
		return r.tt.Const(BV(8), uint64(sv.s[i]))
	}
	return r.selectTerm(idx, len(sv.s), func(i int) *Term { return r.tt.Const(BV(8), uint64(sv.s[i])) })
}

func (r *Run) indexVal(fr *Frame, in *ssa.Index) {
	x := r.get(fr, in.X)
	idx := r.idxTerm(fr, in.Index)
	switch xv := x.(type) {
	case ArrayVal:
		r.boundsCheck(idx, len(xv.e), "array")
		if !idx.IsConst() && !r.eng.cfg.ConcretizeIdx && len(xv.e) > 0 {
			if _, scalar := xv.e[0].(*Term); scalar {
				// symbolic index into an array of scalars: a selection term instead of a case split
				r.set(fr, in, r.selectTerm(idx, len(xv.e), func(i int) *Term { return xv.e[i].(*Term) }))
				return
			}
		}
		i := r.concretize(idx, "index")
		r.set(fr, in, xv.e[i])
	case StrVal:
		r.boundsCheck(idx, len(xv.s), "string")
		r.set(fr, in, r.strByte(xv, idx))
	default:
		r.fail(fmt.Sprintf("Index on %T", x))
	}
}

func (r *Run) sliceInstr(fr *Frame, in *ssa.Slice) {
	x := r.get(fr, in.X)
	bound := func(v ssa.Value, def int) int {
		if v == nil {
			return def
		}
		return int(r.concretize(r.idxTerm(fr, v), "slice-bound"))
	}
	switch xv := x.(type) {
	case SliceVal:
		lo := bound(in.Low, 0)
		hi := bound(in.High, xv.len)
		mx := bound(in.Max, xv.cap)
		if lo < 0 || hi < lo || hi > xv.cap || mx > xv.cap || hi > mx {
			r.goPanic(fmt.Sprintf("runtime error: slice bounds out of range [%d:%d] with capacity %d", lo, hi, xv.cap))
		}
		if xv.arr == nil {
			r.set(fr, in, SliceVal{})
			return
		}
		r.set(fr, in, SliceVal{arr: xv.arr, off: xv.off + lo, len: hi - lo, cap: mx - lo})
	case StrVal:
		lo := bound(in.Low, 0)
		hi := bound(in.High, len(xv.s))
		if lo < 0 || hi < lo || hi > len(xv.s) {
			r.goPanic("runtime error: slice bounds out of range")
		}
		r.set(fr, in, StrVal{xv.s[lo:hi]})
	case Ptr: // *array
		if xv.s == nil {
			r.goPanic("runtime error: invalid memory address or nil pointer dereference")
		}
		n := len(xv.s.sub)
		lo := bound(in.Low, 0)
		hi := bound(in.High, n)
		mx := bound(in.Max, n)
		if lo < 0 || hi < lo || hi > n || mx > n || hi > mx {
			r.goPanic("runtime error: slice bounds out of range")
		}
		r.set(fr, in, SliceVal{arr: xv.s, off: lo, len: hi - lo, cap: mx - lo})
	default:
		r.fail(fmt.Sprintf("Slice on %T", x))
	}
}

// ---- maps ----

func (r *Run) mapRead(m *MapObj) {
	if m != nil && r.multi {
		if m.race == nil {
			m.race = &raceMeta{}
		}
		r.raceCheck(m.race, false, fmt.Sprintf("map#%d", m.id))
	}
}

func (r *Run) mapWrite(m *MapObj) {
	if m != nil && r.multi {
		if m.race == nil {
			m.race = &raceMeta{}
		}
		r.raceCheck(m.race, true, fmt.Sprintf("map#%d", m.id))
	}
}

func (r *Run) mapFind(m *MapObj, k Value) *mapEntry {
	if m == nil {
		return nil
	}
	if iv, ok := k.(Iface); ok && iv.typ != nil && !types.Comparable(iv.typ) {
		r.goPanic("runtime error: hash of unhashable type " + iv.typ.String())
	}
	for _, e := range m.entries {
		if r.branch(r.valueEq(k, e.key)) {
			return e
		}
	}
	return nil
}

func (r *Run) lookup(fr *Frame, in *ssa.Lookup) {
	x := r.get(fr, in.X)
	if sv, ok := x.(StrVal); ok {
		idx := r.idxTerm(fr, in.Index)
		r.boundsCheck(idx, len(sv.s), "string")
		r.set(fr, in, r.strByte(sv, idx))
		return
	}
	m := x.(*MapObj)
	r.mapRead(m)
	e := r.mapFind(m, r.get(fr, in.Index))
	var v Value
	if e != nil {
		v = e.val
	} else {
		v = r.zero(under(in.X.Type()).(*types.Map).Elem())
	}
	if in.CommaOk {
		r.set(fr, in, Tuple{v, r.tt.Bool(e != nil)})
	} else {
		r.set(fr, in, v)
	}
}

func (r *Run) mapDelete(m *MapObj, k Value) {
	if m == nil {
		return
	}
	r.mapWrite(m)
	e := r.mapFind(m, k)
	if e == nil {
		return
	}
	e.dead = true
	for i, x := range m.entries {
		if x == e {
			m.entries = append(append([]*mapEntry(nil), m.entries[:i]...), m.entries[i+1:]...)
			break
		}
	}
}

func permutations(n int) [][]int {
	if n == 0 {
		return [][]int{{}}
	}
	var res [][]int
	var rec func(cur []int, used []bool)
	rec = func(cur []int, used []bool) {
		if len(cur) == n {
			res = append(res, append([]int(nil), cur...))
			return
		}
		for i := 0; i < n; i++ {
			if !used[i] {
				used[i] = true
				rec(append(cur, i), used)
				used[i] = false
			}
		}
	}
	rec(nil, make([]bool, n))
	return res
}

func (r *Run) rangeInstr(fr *Frame, in *ssa.Range) {
	x := r.get(fr, in.X)
	if sv, ok := x.(StrVal); ok {
		r.set(fr, in, &mapIter{isStr: true, str: sv.s})
		return
	}
	m := x.(*MapObj)
	it := &mapIter{m: m}
	if m != nil {
		r.mapRead(m)
		n := len(m.entries)
		order := make([]int, n)
		for i := range order {
			order[i] = i
		}
		if n >= 2 && !r.mapOrderOff {
			switch r.eng.cfg.MapOrder {
			case "all":
				if n <= 3 {
					ps := permutations(n)
					order = ps[r.choose(len(ps), "maporder")]
					break
				}
				fallthrough
			case "rot":
				k := r.choose(2*n, "maporder")
				rot := k % n
				for i := range order {
					order[i] = (i + rot) % n
				}
				if k >= n {
					for i, j := 0, n-1; i < j; i, j = i+1, j-1 {
						order[i], order[j] = order[j], order[i]
					}
				}
			case "two":
				if r.choose(2, "maporder") == 1 {
					for i, j := 0, n-1; i < j; i, j = i+1, j-1 {
						order[i], order[j] = order[j], order[i]
					}
				}
			case "one":
			}
		}
		for _, i := range order {
			it.order = append(it.order, m.entries[i])
		}
	}
	r.set(fr, in, it)
}

func (r *Run) nextInstr(fr *Frame, in *ssa.Next) {
	it := r.get(fr, in.Iter).(*mapIter)
	tup := in.Type().(*types.Tuple)
	if it.isStr {
		if !in.IsString {
			r.fail("iterator kind mismatch")
		}
		if it.pos >= len(it.str) {
			r.set(fr, in, Tuple{r.tt.False, r.tt.Int(64, 0), r.tt.Const(BV(32), 0)})
			return
		}
		// decode one rune
		rs := []rune(it.str[it.pos:])
		ru := rs[0]
		i := it.pos
		it.pos += len(string(ru))
		r.set(fr, in, Tuple{r.tt.True, r.tt.Int(64, int64(i)), r.tt.Const(BV(32), uint64(ru))})
		return
	}
	if it.m != nil {
		r.mapRead(it.m)
	}
	for it.pos < len(it.order) {
		e := it.order[it.pos]
		it.pos++
		if e.dead {
			continue
		}
		r.set(fr, in, Tuple{r.tt.True, e.key, e.val})
		return
	}
	_ = tup
	r.set(fr, in, Tuple{r.tt.False, nil, nil})
}

// ---- type assertions ----

func (r *Run) implements(dyn types.Type, iface *types.Interface) bool {
	return types.Implements(dyn, iface)
}

func (r *Run) typeAssert(fr *Frame, in *ssa.TypeAssert) {
	x := r.get(fr, in.X).(Iface)
	ok := false
	var res Value
	if it, isI := under(in.AssertedType).(*types.Interface); isI {
		if x.typ != nil && r.implements(x.typ, it) {
			ok = true
			res = x
		}
	} else if x.typ != nil && types.Identical(x.typ, in.AssertedType) {
		ok = true
		res = x.val
	}
	if in.CommaOk {
		if !ok {
			res = r.zero(in.AssertedType)
		}
		r.set(fr, in, Tuple{res, r.tt.Bool(ok)})
		return
	}
	if !ok {
		dyn := "nil"
		if x.typ != nil {
			dyn = x.typ.String()
		}
		r.goPanic(fmt.Sprintf("interface conversion: interface is %s, not %s", dyn, in.AssertedType))
	}
	r.set(fr, in, res)
}
