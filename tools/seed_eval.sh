#!/bin/sh
# usage: seed_eval.sh <seed-id> <property> [check-entry]
# Evaluates a seeded breaking change stored under /verif/seeded/<seed-id>/ (patch.diff, demo_test.go, meta.json)
# in a scratch worktree of /repo (so /repo itself, the registered checks and the committed evidence are untouched
# and several seeds can be evaluated at once):
#  1. the demo passes on the unmodified tree, 2. the patch applies and the repository's tests still pass,
#  3. the demo fails with the patch, 4. the check for the property (engine pointed at the scratch tree through
#  SYMGO_REPO, output redirected through SYMGO_OUT) turns red. The scratch tree is removed afterwards.
set -u
ID=$1; PROP=$2; ENTRY=${3:-}; TIER=${TIER:-quick}
S=/verif/seeded/$ID
W=/tmp/se_$ID; O=/tmp/se_${ID}_out
export GOFLAGS=-mod=mod GOPROXY=off GOSUMDB=off GOTOOLCHAIN=local
rm -rf $W $O; git -C /repo worktree prune
git -C /repo worktree add --detach $W HEAD >/dev/null 2>&1 || { echo "cannot create scratch worktree"; exit 2; }
cd $W || exit 2
DIR=$(head -1 $S/demo_test.go | sed -n 's,^// dir: *,,p')
[ -n "$DIR" ] || { echo "demo_test.go lacks '// dir:' line"; exit 2; }
cp $S/demo_test.go $W/$DIR/zz_seed_demo_test.go
RACE=""; grep -q -- "-race" $S/meta.json && RACE="-race"
echo "== demo on the unmodified tree"
go test -vet=off -count=1 $RACE -run 'Seed|Demo' ./$DIR/ 2>&1 | tail -3
echo "== apply patch"
rm -f $W/$DIR/zz_seed_demo_test.go
git apply $S/patch.diff || { echo "patch does not apply"; cd /; git -C /repo worktree remove --force $W; exit 2; }
echo "== repository test suite with the patch"
go test -vet=off -count=1 ./... 2>&1 | grep -v "no test files" | tail -9
cp $S/demo_test.go $W/$DIR/zz_seed_demo_test.go
echo "== demo with the patch"
go test -vet=off -count=1 $RACE -run 'Seed|Demo' ./$DIR/ 2>&1 | tail -4
rm -f $W/$DIR/zz_seed_demo_test.go
echo "== check $PROP $TIER with the patch"
mkdir -p $O
cd /verif && SYMGO_REPO=$W SYMGO_OUT=$O ./check $PROP $TIER $ENTRY 2>&1 | grep -v "^\[" | cut -c1-300 | tail -8
echo "exit=$?"
cd /; git -C /repo worktree remove --force $W; git -C /repo worktree prune
[ -n "${KEEP_OUT:-}" ] || rm -rf $O
