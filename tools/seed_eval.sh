#!/bin/sh
# usage: seed_eval.sh <seed-id> <property> [check-entry]
# Evaluates a seeded breaking change stored under /verif/seeded/<seed-id>/ (patch.diff, demo_test.go, meta.json):
#  1. the demo passes on the unmodified tree, 2. the patch applies, the repository's tests still pass,
#  3. the demo fails with the patch, 4. the check for the property turns red. /repo is restored afterwards.
set -u
ID=$1; PROP=$2; ENTRY=${3:-}
S=/verif/seeded/$ID
export GOFLAGS=-mod=mod GOPROXY=off GOSUMDB=off GOTOOLCHAIN=local
cd /repo || exit 2
git diff --quiet || { echo "repo not clean"; exit 2; }
DIR=$(head -1 $S/demo_test.go | sed -n 's,^// dir: *,,p')
[ -n "$DIR" ] || { echo "demo_test.go lacks '// dir:' line"; exit 2; }
cp $S/demo_test.go /repo/$DIR/zz_seed_demo_test.go
RACE=""; grep -q -- "-race" $S/meta.json && RACE="-race"
echo "== demo on the unmodified tree"
go test -vet=off -count=1 $RACE -run 'Seed|Demo' ./$DIR/ 2>&1 | tail -3
echo "== apply patch"
git apply $S/patch.diff || { rm -f /repo/$DIR/zz_seed_demo_test.go; echo "patch does not apply"; exit 2; }
rm -f /repo/$DIR/zz_seed_demo_test.go
echo "== repository test suite with the patch"
go test -vet=off -count=1 ./... 2>&1 | grep -v "no test files" | tail -9
cp $S/demo_test.go /repo/$DIR/zz_seed_demo_test.go
echo "== demo with the patch"
go test -vet=off -count=1 $RACE -run 'Seed|Demo' ./$DIR/ 2>&1 | tail -4
rm -f /repo/$DIR/zz_seed_demo_test.go
echo "== check $PROP quick with the patch"
cp /verif/evidence/$PROP.json /tmp/evidence_$PROP.json.keep 2>/dev/null
cd /verif && ./check $PROP quick $ENTRY 2>&1 | grep -v "^\[" | cut -c1-300 | tail -8
# evidence describes runs on the unchanged tree only
[ -f /tmp/evidence_$PROP.json.keep ] && mv /tmp/evidence_$PROP.json.keep /verif/evidence/$PROP.json
echo "exit=$?"
git -C /repo checkout -- . ; git -C /repo status --short
