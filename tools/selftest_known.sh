#!/bin/sh
# Self-test of the known-findings path (no finding is open on /repo, so the path is otherwise never run):
# on a scratch tree carrying the seeded change S-C13, (1) with the finding listed the check prints
# KNOWN-FINDING and exits 0; (2) with a different finding listed the violation is still reported, exit 1.
set -u
cd /verif || exit 2
eval "$(tools/seed_tree.sh S-C13)" || exit 2
W=/tmp/st_S-C13
SYMGO_REPO=$W SYMGO_OUT=${W}_out ./check C13 quick > ${W}_out/plain.log 2>&1; e0=$?
LABEL=$(sed -n 's/^  -> violation in \([A-Za-z0-9]*\): \(.*\) — assertion can fail.*/\1|\2/p' ${W}_out/plain.log | head -1)
ENTRY=${LABEL%%|*}; LAB=${LABEL#*|}
echo "plain run: exit=$e0 finding: $ENTRY / $LAB"
n=$(grep -c '^  -> ' ${W}_out/plain.log)
python3 - "$ENTRY" "$LAB" ${W}_out <<'P'
import json,sys,re
entry,lab,out=sys.argv[1:4]
fs=[]
for l in open(out+'/plain.log'):
    m=re.match(r'  -> (\w+) in (\w+): (.*) — ',l)
    if m: fs.append({"property":"C13","entry":m.group(2),"outcome":m.group(1),"label":m.group(3),"what":m.group(2)+": "+m.group(3)})
json.dump({"findings":fs,"fixed":[]},open(out+'/known_all.json','w'))
json.dump({"findings":[{"property":"C13","entry":"NoSuchEntry","outcome":"violation","label":"something else","what":"unrelated"}],"fixed":[]},open(out+'/known_other.json','w'))
P
SYMGO_KNOWN=${W}_out/known_all.json SYMGO_REPO=$W SYMGO_OUT=${W}_out ./check C13 quick > ${W}_out/known.log 2>&1; e1=$?
SYMGO_KNOWN=${W}_out/known_other.json SYMGO_REPO=$W SYMGO_OUT=${W}_out ./check C13 quick > ${W}_out/other.log 2>&1; e2=$?
echo "all findings listed:   exit=$e1 KNOWN-FINDING lines=$(grep -c '^KNOWN-FINDING: property=C13' ${W}_out/known.log) VIOLATION lines=$(grep -c '^VIOLATION' ${W}_out/known.log)"
echo "another finding listed: exit=$e2 KNOWN-FINDING lines=$(grep -c '^KNOWN-FINDING' ${W}_out/other.log) VIOLATION lines=$(grep -c '^VIOLATION' ${W}_out/other.log)"
tools/seed_tree.sh -d S-C13
[ $e0 -eq 1 ] && [ $e1 -eq 0 ] && [ $e2 -eq 1 ] && echo "selftest_known: PASS" || { echo "selftest_known: FAIL"; exit 1; }
