#!/bin/sh
# usage: seed_regress.sh [-j N] [pattern]
# Re-evaluates every stored change under /verif/seeded against the current checks (scratch worktrees only):
# breaking changes (S-, R2-..R12-) must be reported as VIOLATION, behaviour-preserving ones (P8-, P10-, P13-) must stay green.
# Prints one line per change and a summary; logs in /tmp/seedreg/.
J=3; [ "${1:-}" = "-j" ] && { J=$2; shift 2; }
PAT=${1:-.}
mkdir -p /tmp/seedreg
cd /verif/seeded || exit 2
ls | grep -E "$PAT" | xargs -P $J -I{} sh -c '
  id={}; prop=$(echo $id | sed "s/.*-//")
  case $id in
    P8-*|P10-*|P13-*|P16-*) /verif/tools/preserve_eval.sh $id $prop > /tmp/seedreg/$id.log 2>&1 ;;
    *)    /verif/tools/seed_eval.sh $id $prop > /tmp/seedreg/$id.log 2>&1 ;;
  esac
  v=$(grep -c "^VIOLATION" /tmp/seedreg/$id.log); ok=$(grep -c "^OK property" /tmp/seedreg/$id.log); inc=$(grep -c "^INCONCLUSIVE" /tmp/seedreg/$id.log)
  case $id in
    P8-*|P10-*|P13-*|P16-*) if [ $v -eq 0 ] && [ $ok -ge 1 ]; then r=PASS; else r=FAIL; fi ;;
    *)    if grep -q "\"final\": \"NOT REPORTED" /verif/seeded/$id/meta.json; then
            # judged equivalent within the scope of the property, see its meta.json: must stay unreported
            if [ $v -eq 0 ]; then r=PASS; else r=FAIL; fi
          elif [ $v -ge 1 ]; then r=PASS; else r=FAIL; fi ;;
  esac
  echo "$r $id violations=$v ok=$ok inconclusive=$inc"
'
