#!/usr/bin/env python3
"""Development-time mutation smoke test (DESIGN.md Appendix C).
usage: mutant.py <name>|all    - applies mutants/<name>.json to /repo, runs the package tests and
the named check (quick), reverts /repo. A mutant file: {"property","file","old","new","expect":"red"|"green","note"}"""
import json, subprocess, sys, os, glob
ENV = dict(os.environ, GOFLAGS='-mod=mod', GOPROXY='off', GOSUMDB='off', GOTOOLCHAIN='local')
def run(name):
    m = json.load(open(f'/verif/mutants/{name}.json'))
    path = '/repo/' + m['file']
    src = open(path).read()
    if src.count(m['old']) != 1:
        return name, 'SKIP(old text occurs %d times)' % src.count(m['old'])
    ev = f"/verif/evidence/{m['property']}.json"
    evsave = open(ev).read() if os.path.exists(ev) else None
    try:
        open(path, 'w').write(src.replace(m['old'], m['new']))
        pkg = './' + os.path.dirname(m['file']) if os.path.dirname(m['file']) else '.'
        t = subprocess.run(['go', 'test', '-vet=off', '-count=1', pkg], cwd='/repo', env=ENV, capture_output=True, text=True)
        tests = 'tests-pass' if t.returncode == 0 else 'TESTS-FAIL'
        args = ['/verif/check', m['property'], 'quick'] + ([m['entry']] if m.get('entry') else [])
        c = subprocess.run(args, capture_output=True, text=True, timeout=1800)
        verdict = {0: 'green', 1: 'red', 2: 'inconclusive'}.get(c.returncode, str(c.returncode))
        ok = 'OK ' if verdict == m.get('expect', 'red') else 'MISMATCH '
        detail = [l for l in c.stdout.splitlines() if l.startswith('  ->') or l.startswith('INCONCLUSIVE') or l.startswith('UNCONFIRMED')][:3]
        return name, f"{ok}{m['property']} {tests} check={verdict} expect={m.get('expect','red')} :: " + ' | '.join(d.strip()[:160] for d in detail)
    finally:
        open(path, 'w').write(src)
        if evsave is not None:
            open(ev, 'w').write(evsave)  # evidence describes runs on the unchanged tree only
names = sys.argv[1:]
if names == ['all']:
    names = sorted(os.path.basename(p)[:-5] for p in glob.glob('/verif/mutants/*.json'))
for n in names:
    print(*run(n), flush=True)
subprocess.run(['git', '-C', '/repo', 'status', '--short'])
