#!/usr/bin/env python3
"""Development-time mutation smoke test (DESIGN.md Appendix C).
usage: mutant.py [-j N] <name>...|all
Each mutant (mutants/<name>.json: {"property","file","old","new","expect":"red"|"green","entry"?,"note"}) is applied
to a scratch worktree of /repo (never to /repo itself), the package tests are run there, and the named quick check is
run with the engine pointed at the scratch tree (SYMGO_REPO) and its output redirected (SYMGO_OUT), so neither /repo nor
the committed evidence is touched and mutants can be evaluated in parallel."""
import json, subprocess, sys, os, glob, shutil
from concurrent.futures import ThreadPoolExecutor
ENV = dict(os.environ, GOFLAGS='-mod=mod', GOPROXY='off', GOSUMDB='off', GOTOOLCHAIN='local')
def run(name):
    m = json.load(open(f'/verif/mutants/{name}.json'))
    w, o = f'/tmp/mu_{name}', f'/tmp/mu_{name}_out'
    shutil.rmtree(w, ignore_errors=True); shutil.rmtree(o, ignore_errors=True)
    subprocess.run(['git', '-C', '/repo', 'worktree', 'prune'])
    if subprocess.run(['git', '-C', '/repo', 'worktree', 'add', '--detach', w, 'HEAD'], capture_output=True).returncode != 0:
        return name, 'SKIP(cannot create worktree)'
    try:
        path = w + '/' + m['file']
        src = open(path).read()
        if src.count(m['old']) != 1:
            return name, 'SKIP(old text occurs %d times)' % src.count(m['old'])
        open(path, 'w').write(src.replace(m['old'], m['new']))
        pkg = './' + os.path.dirname(m['file']) if os.path.dirname(m['file']) else '.'
        t = subprocess.run(['go', 'test', '-vet=off', '-count=1', pkg], cwd=w, env=ENV, capture_output=True, text=True)
        tests = 'tests-pass' if t.returncode == 0 else 'TESTS-FAIL'
        os.makedirs(o, exist_ok=True)
        args = ['/verif/check', m['property'], 'quick'] + ([m['entry']] if m.get('entry') else [])
        c = subprocess.run(args, capture_output=True, text=True, timeout=3600, env=dict(ENV, SYMGO_REPO=w, SYMGO_OUT=o))
        verdict = {0: 'green', 1: 'red', 2: 'inconclusive'}.get(c.returncode, str(c.returncode))
        ok = 'OK ' if verdict == m.get('expect', 'red') else 'MISMATCH '
        detail = [l for l in c.stdout.splitlines() if l.startswith('  ->') or l.startswith('INCONCLUSIVE') or l.startswith('UNCONFIRMED')][:3]
        return name, f"{ok}{m['property']} {tests} check={verdict} expect={m.get('expect','red')} :: " + ' | '.join(d.strip()[:160] for d in detail)
    finally:
        subprocess.run(['git', '-C', '/repo', 'worktree', 'remove', '--force', w], capture_output=True)
        shutil.rmtree(o, ignore_errors=True)
args = sys.argv[1:]
jobs = 1
if args[:1] == ['-j']:
    jobs = int(args[1]); args = args[2:]
names = args
if names == ['all']:
    names = sorted(os.path.basename(p)[:-5] for p in glob.glob('/verif/mutants/*.json'))
with ThreadPoolExecutor(jobs) as ex:
    for r in ex.map(run, names):
        print(*r, flush=True)
subprocess.run(['git', '-C', '/repo', 'worktree', 'prune'])
