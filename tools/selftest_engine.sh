#!/bin/sh
# Engine self-test: the stdlib models (sync.Cond, timers, context, sync.Once*/Map) on small scenarios.
cd /verif && mkdir -p /tmp/selftest_out && SYMGO_OUT=/tmp/selftest_out ./check SELFTEST quick; e=$?; rm -rf /tmp/selftest_out; exit $e
