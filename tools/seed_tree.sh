#!/bin/sh
# usage: seed_tree.sh <seed-id>            - create /tmp/st_<seed-id>: a scratch worktree of /repo with the seed's patch applied
#        seed_tree.sh -d <seed-id>         - remove it
# then: SYMGO_REPO=/tmp/st_<seed-id> SYMGO_OUT=/tmp/st_<seed-id>_out ./check <prop> quick [entry]
if [ "$1" = "-d" ]; then git -C /repo worktree remove --force /tmp/st_$2; git -C /repo worktree prune; rm -rf /tmp/st_$2_out; exit 0; fi
W=/tmp/st_$1
git -C /repo worktree add --detach $W HEAD >/dev/null 2>&1 && git -C $W apply /verif/seeded/$1/patch.diff && mkdir -p ${W}_out && echo "SYMGO_REPO=$W SYMGO_OUT=${W}_out"
