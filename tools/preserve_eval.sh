#!/bin/sh
# usage: preserve_eval.sh <change-id> <property>
# Evaluates a BEHAVIOUR-PRESERVING change stored under /verif/seeded/<change-id>/ (patch.diff, demo_test.go,
# meta.json with "kind":"behaviour-preserving") in a scratch worktree of /repo: the repository's tests and the
# change's own test must pass with the patch, and the property's quick check must stay green (exit 0, no
# VIOLATION line) - an alarm here is a false alarm of the check. The scratch tree is removed afterwards.
set -u
ID=$1; PROP=$2; TIER=${TIER:-quick}
S=/verif/seeded/$ID
W=/tmp/pe_$ID; O=/tmp/pe_${ID}_out
export GOFLAGS=-mod=mod GOPROXY=off GOSUMDB=off GOTOOLCHAIN=local
rm -rf $W $O; git -C /repo worktree prune
git -C /repo worktree add --detach $W HEAD >/dev/null 2>&1 || { echo "cannot create scratch worktree"; exit 2; }
cd $W || exit 2
DIR=$(head -1 $S/demo_test.go | sed -n 's,^// dir: *\([a-z0-9.]*\).*,\1,p')
[ -n "$DIR" ] || DIR=.
git apply $S/patch.diff || { echo "patch does not apply"; cd /; git -C /repo worktree remove --force $W; exit 2; }
echo "== repository test suite with the patch"
go test -vet=off -count=1 ./... 2>&1 | grep -v "no test files" | tail -9
cp $S/demo_test.go $W/$DIR/zz_seed_demo_test.go
echo "== the change's own test with the patch"
go test -vet=off -count=1 ./$DIR/ 2>&1 | tail -3
rm -f $W/$DIR/zz_seed_demo_test.go
echo "== check $PROP $TIER with the patch (must stay green)"
mkdir -p $O
cd /verif && SYMGO_REPO=$W SYMGO_OUT=$O ./check $PROP $TIER 2>&1 | grep -v "^\[" | cut -c1-300 | tail -8
cd /; git -C /repo worktree remove --force $W; git -C /repo worktree prune
[ -n "${KEEP_OUT:-}" ] || rm -rf $O
