#!/usr/bin/env python3
"""Regenerates /verif/MANIFEST.json from tools/claims.json (one entry per claimed property).
Properties without a claim are listed under not_applicable with the reason given there."""
import json, os
V = '/verif'
props = [json.loads(l) for l in open(f'{V}/properties.jsonl')]
claims = json.load(open(f'{V}/tools/claims.json'))
checks, na, served = [], [], []
for p in props:
    pid = p['id']
    c = claims.get(pid)
    if c and c.get('claimed') and os.path.exists(f'{V}/specs/{pid}.json'):
        served.append(pid)
        checks.append({
            "property_id": pid,
            "quick_cmd": f"./check {pid} quick",
            "thorough_cmd": f"./check {pid} thorough",
            "evidence_file": f"/verif/evidence/{pid}.json",
            "replay_cmd_template": "sh {path}",
            "engine": "symgo",
            "level_claimed": {"category": "model_checking", "text": c['text'], "design_ref": c.get('design_ref', 'DESIGN.md section 10')},
            "level_note": c['note'],
            "technique": c.get('technique', "bounded symbolic execution of the go/ssa form of the real code; SMT (z3, QF_BV/FP/UF) decides every assertion for all values on every path within the stated bounds; counterexamples replayed natively"),
        })
    else:
        na.append({"property_id": pid, "reason": (c or {}).get('reason', "check not built yet (see DESIGN.md section 11)")})
m = {
 "version": 1,
 "setup_cmd": "cd /verif/symgo && GOFLAGS=-mod=mod GOPROXY=off GOSUMDB=off GOTOOLCHAIN=local go build -o /verif/bin/symgo .",
 "hooks": {"guard": "verif",
           "enable": "no source hooks are needed: harnesses and the v* runtime are injected into /repo's packages through go/packages overlays (engine) and `go test -overlay` (native replay) at run time; /repo is never written to",
           "baseline_off_cmd": "cd /repo && GOFLAGS=-mod=mod GOPROXY=off go test -vet=off -count=1 ./...",
           "source_commits": [], "add_only": True},
 "engines": [{"name": "symgo", "path": "/verif/symgo", "serves_properties": served,
              "kind_free_text": "symbolic executor for go/ssa (x/tools v0.29.0): real typ code and the stdlib code under it run instruction by instruction over bit-vector/FP/UF terms, branches and assertions are decided by a persistent z3 (push/pop), schedules/iteration orders/shapes are case splits; models are replayed natively with go test -overlay"}],
 "checks": checks,
 "notes": "See DESIGN.md. Exit codes: 0 = every path within the bounds explored and every VC unsat; 1 = natively reproduced violation (VIOLATION line); 2 = inconclusive (solver unknown, engine limit, vacuity witness missing, unreproduced counterexample). known_findings.json lists repaired defects (fixed:) and, if any, recorded findings.",
 "not_applicable": na,
}
json.dump(m, open(f'{V}/MANIFEST.json', 'w'), indent=1)
print("claimed:", served, "unclaimed:", [x['property_id'] for x in na])
